#!/usr/bin/env bash
# Offline build of everything the checks need (they rebuild incrementally themselves).
set -eu
cd "$(dirname "$(readlink -f "$0")")"
export CARGO_NET_OFFLINE=true CARGO_TERM_COLOR=never
REPO="${VERIF_REPO:-/repo}"
mkdir -p target work evidence
ln -sfn "$REPO" harness/sut
[ -f harness/Cargo.lock ] || cp "$REPO/Cargo.lock" harness/Cargo.lock
cargo build --manifest-path harness/Cargo.toml --target-dir target/harness
CARGO_PROFILE_DEV_OPT_LEVEL=2 CARGO_PROFILE_DEV_DEBUG=0 cargo build --manifest-path "$REPO/Cargo.toml" -p sfs-cli --bin sfs --target-dir target/cli
VERIF_DIR="$(pwd)" VERIF_SFS_BIN="$(pwd)/target/cli/debug/sfs" target/harness/debug/sfsverif selftest
echo "setup ok"
