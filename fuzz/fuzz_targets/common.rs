//! Shared by the fuzz targets: a global allocator that refuses single allocations above 256 MiB
//! (corrupt inputs declare multi-gigabyte buffers) and an allocation-error hook that panics, so
//! that the refusal unwinds into the target's `catch_unwind` and is tolerated instead of aborting
//! the campaign. Memory exhaustion is not a violation of the properties under test.

use std::alloc::{GlobalAlloc, Layout, System};

pub const CAP: usize = 256 << 20;

pub struct Capped;

unsafe impl GlobalAlloc for Capped {
    unsafe fn alloc(&self, l: Layout) -> *mut u8 {
        if l.size() > CAP {
            std::ptr::null_mut()
        } else {
            System.alloc(l)
        }
    }
    unsafe fn dealloc(&self, p: *mut u8, l: Layout) {
        System.dealloc(p, l)
    }
    unsafe fn alloc_zeroed(&self, l: Layout) -> *mut u8 {
        if l.size() > CAP {
            std::ptr::null_mut()
        } else {
            System.alloc_zeroed(l)
        }
    }
    unsafe fn realloc(&self, p: *mut u8, l: Layout, n: usize) -> *mut u8 {
        if n > CAP {
            std::ptr::null_mut()
        } else {
            System.realloc(p, l, n)
        }
    }
}

pub fn init() {
    static ONCE: std::sync::Once = std::sync::Once::new();
    ONCE.call_once(|| {
        std::alloc::set_alloc_error_hook(|layout| panic!("allocation cap: {} bytes refused", layout.size()));
        verif_core::fuzz::install_fuzz_panic_hook();
    });
}
