#![no_main]
#![feature(alloc_error_hook)]
use libfuzzer_sys::fuzz_target;

mod common;

#[global_allocator]
static ALLOC: common::Capped = common::Capped;

fuzz_target!(|data: &[u8]| {
    common::init();
    if let Err(e) = verif_core::fuzz::fz_callset(data) {
        panic!("PROPERTY VIOLATION (fz_callset): {e}");
    }
});
