//! Bodies of the coverage-guided fuzz targets. They live in the harness library so that the very
//! same function is (a) the libFuzzer entry point (fuzz/fuzz_targets/*.rs) and (b) the replay path
//! of the harness binary. Each body carries its semantic oracle; a violation is reported by
//! returning `Err(description)`, which the libFuzzer wrapper turns into a crash.

use std::{
    io::Cursor,
    num::NonZeroUsize,
    panic::{self, AssertUnwindSafe},
    sync::OnceLock,
};

use sfs_core::{
    array::Axis,
    input::{
        genotype,
        sample::Population,
        site::{
            self,
            reader::builder::{Project, Samples},
            Site,
        },
        ReadStatus, Sample,
    },
    spectrum::io::{read, write, Format},
    Array, Input as SfsInput, Scs,
};

use crate::model::npy;

/// Signatures of tolerated (known, open) panics: `file:line:message` fragments, from
/// known_findings.txt (`open: property=C17 sig=...`). Empty in strict mode.
fn allow_list() -> &'static Vec<String> {
    static L: OnceLock<Vec<String>> = OnceLock::new();
    L.get_or_init(|| {
        if std::env::var("VERIF_FUZZ_STRICT").is_ok() {
            return vec![];
        }
        let path = std::env::var("VERIF_KNOWN_FINDINGS").unwrap_or_else(|_| "/verif/known_findings.txt".into());
        crate::findings::Findings::load(std::path::Path::new(&path)).open.into_iter().filter(|o| o.property == "C17").map(|o| o.sig).collect()
    })
}

thread_local! {
    static PANIC_SIG: std::cell::RefCell<Option<String>> = const { std::cell::RefCell::new(None) };
}

pub fn install_fuzz_panic_hook() {
    static ONCE: std::sync::Once = std::sync::Once::new();
    ONCE.call_once(|| {
        let default = panic::take_hook();
        panic::set_hook(Box::new(move |info| {
            let text = format!("panicked at {}:\n{}", info.location().map(|l| format!("{}:{}:{}", l.file(), l.line(), l.column())).unwrap_or_default(), payload(info));
            let sig = crate::props::c17::panic_signature(&text).unwrap_or_default();
            PANIC_SIG.with(|p| *p.borrow_mut() = Some(sig.clone()));
            if !sig.contains("allocation_cap") && !allow_list().iter().any(|a| *a == sig) {
                default(info);
            }
        }));
    });
}

fn payload(info: &panic::PanicHookInfo<'_>) -> String {
    if let Some(s) = info.payload().downcast_ref::<&str>() {
        s.to_string()
    } else if let Some(s) = info.payload().downcast_ref::<String>() {
        s.clone()
    } else {
        String::new()
    }
}

/// Runs `f`; a panic with an allow-listed signature is tolerated (returns None), any other panic
/// is a violation.
fn tolerate<T>(what: &str, f: impl FnOnce() -> T) -> Result<Option<T>, String> {
    install_fuzz_panic_hook();
    match panic::catch_unwind(AssertUnwindSafe(f)) {
        Ok(v) => Ok(Some(v)),
        Err(_) => {
            let sig = PANIC_SIG.with(|p| p.borrow_mut().take()).unwrap_or_default();
            if sig.contains("allocation_cap") || allow_list().iter().any(|a| *a == sig) {
                // a known (open) finding, or the fuzz binary's allocation cap: tolerated
                Ok(None)
            } else {
                Err(format!("{what}: panic with signature {sig}"))
            }
        }
    }
}

// ---------------------------------------------------------------------------------------------

/// bytes -> Array::read_npy, with the independent npy parser as in-target oracle.
pub fn fz_npy(data: &[u8]) -> Result<(), String> {
    let Some(got) = tolerate("read_npy", || Array::read_npy(data))? else { return Ok(()) };
    let strict = npy::parse_header(data);
    match (&got, &strict) {
        (Ok(array), _) => {
            // whatever sfs accepted must be self-consistent
            let n: usize = array.shape().iter().product();
            if array.as_slice().len() != n {
                return Err(format!("read_npy returned {} values for shape {:?}", array.as_slice().len(), array.shape()));
            }
            if let Ok(p) = &strict {
                if p.shape != array.shape().as_ref() {
                    return Err(format!("read_npy shape {:?}, independent parser {:?}", array.shape(), p.shape));
                }
                if p.fortran {
                    return Err("a fortran_order: True file was accepted".into());
                }
                if let Some((dtype, order)) = decode_descr(&p.descr) {
                    let payload = &data[p.data_offset..];
                    if payload.len() != n * dtype.size() {
                        return Err(format!("accepted although the payload has {} bytes and shape {:?} of {} needs {}", payload.len(), p.shape, p.descr, n * dtype.size()));
                    }
                    for (i, chunk) in payload.chunks_exact(dtype.size()).enumerate() {
                        let mut le = [0u8; 8];
                        match order {
                            npy::Order::Little => le[..chunk.len()].copy_from_slice(chunk),
                            npy::Order::Big => {
                                for (k, b) in chunk.iter().rev().enumerate() {
                                    le[k] = *b;
                                }
                            }
                        }
                        let want = npy::bits_to_f64(dtype, u64::from_le_bytes(le));
                        let g = array.as_slice()[i];
                        if !(g.to_bits() == want.to_bits() || (g.is_nan() && want.is_nan())) {
                            return Err(format!("element {i} of {} read as {g:?}, expected {want:?}", p.descr));
                        }
                    }
                } else {
                    return Err(format!("unsupported descr {:?} accepted", p.descr));
                }
            }
        }
        (Err(_), Ok(p)) => {
            // a file the strict parser fully understands and that is well-formed must be accepted
            if let Some((dtype, _)) = decode_descr(&p.descr) {
                let n: usize = p.shape.iter().try_fold(1usize, |a, b| a.checked_mul(*b)).unwrap_or(usize::MAX);
                // only headers spelled exactly as numpy writes them (the spelling variants named in
                // the property are exercised by the proptest part with a sound generator)
                let canonical = npy::numpy_dict(&p.descr, false, &p.shape);
                let as_numpy = p.header_text.trim_end_matches(|c| c == ' ' || c == '\n') == canonical && p.header_text.ends_with('\n') && p.version.1 == 0;
                if as_numpy && !p.fortran && !p.shape.is_empty() && n.checked_mul(dtype.size()) == Some(data.len() - p.data_offset) && p.version.0 <= 3 {
                    return Err(format!("a well-formed npy file was rejected: header {:?}", p.header_text));
                }
            }
        }
        _ => {}
    }
    Ok(())
}

fn decode_descr(d: &str) -> Option<(npy::Dtype, npy::Order)> {
    if d.len() != 3 || !d.is_ascii() {
        return None;
    }
    let order = match &d[..1] {
        "<" | "|" => npy::Order::Little,
        ">" => npy::Order::Big,
        _ => return None,
    };
    let dtype = npy::ALL_DTYPES.iter().copied().find(|t| t.code() == &d[1..])?;
    Some((dtype, order))
}

// ---------------------------------------------------------------------------------------------

fn scratch_file(tag: &str) -> std::path::PathBuf {
    let dir = if std::path::Path::new("/dev/shm").is_dir() { "/dev/shm".to_string() } else { std::env::temp_dir().to_string_lossy().into_owned() };
    std::path::PathBuf::from(dir).join(format!("sfsverif-fz-{}-{tag}.bin", std::process::id()))
}

/// bytes -> file -> auto-detecting reader -> fold, all statistics, every marginalization, a
/// projection, normalize, write both formats, re-read.
pub fn fz_spectrum(data: &[u8]) -> Result<(), String> {
    let path = scratch_file("spec");
    std::fs::write(&path, data).map_err(|e| e.to_string())?;
    let p2 = path.clone();
    let Some(read) = tolerate("read::Builder::read", move || read::Builder::default().set_input(SfsInput::new_unchecked(Some(p2))).read())? else { return Ok(()) };
    let Ok(scs) = read else { return Ok(()) };
    let shape: Vec<usize> = scs.shape().as_ref().to_vec();
    if shape.is_empty() || shape.iter().any(|n| *n == 0) {
        return Err(format!("a spectrum of shape {shape:?} was accepted"));
    }
    let n: usize = shape.iter().product();
    if n != scs.elements() {
        return Err(format!("shape {shape:?} with {} elements", scs.elements()));
    }
    if n > 200_000 {
        return Ok(());
    }
    let result = tolerate("operations on an accepted spectrum", || -> Result<(), String> {
        // fold: shape preserved, mass preserved with fill 0 on finite non-negative input
        let folded = scs.fold().into_spectrum(0.0);
        if folded.shape() != scs.shape() {
            return Err("fold changed the shape".into());
        }
        let finite = scs.inner().as_slice().iter().all(|v| v.is_finite() && *v >= 0.0 && *v < 1e100);
        if finite {
            let (a, b) = (scs.sum(), folded.sum());
            if (a - b).abs() > 1e-9 * (1.0 + a.abs()) {
                return Err(format!("fold with fill 0 changed the mass {a} -> {b}"));
            }
        }
        // statistics: either a value or an error, never a panic
        let _ = (scs.pi(), scs.pi_xy(), scs.theta_watterson(), scs.d_tajima(), scs.d_fu_li(), scs.king(), scs.r0(), scs.r1(), scs.segregating_sites(), scs.sum());
        let sfs = scs.clone().into_normalized();
        let _ = (sfs.f2(), sfs.f3(), sfs.f4(), sfs.fst());
        // marginalization of every single axis and of all-but-one
        let d = shape.len();
        if d >= 2 && n <= 20_000 {
            for a in 0..d {
                let m = scs.marginalize(&[Axis(a)]).map_err(|e| format!("marginalize axis {a}: {e}"))?;
                if finite && (m.sum() - scs.sum()).abs() > 1e-9 * (1.0 + scs.sum().abs()) {
                    return Err(format!("marginalizing axis {a} changed the mass"));
                }
            }
            let all_but_last: Vec<Axis> = (0..d - 1).rev().map(Axis).collect();
            scs.marginalize(&all_but_last).map_err(|e| format!("marginalize {all_but_last:?}: {e}"))?;
        }
        if scs.marginalize(&(0..d).map(Axis).collect::<Vec<_>>()).is_ok() {
            return Err("removing every axis accepted".into());
        }
        // projection to half size
        if n <= 3000 && shape.iter().all(|l| *l <= 400) {
            let to: Vec<usize> = shape.iter().map(|l| (l / 2).max(1)).collect();
            let p = scs.project(to.clone()).map_err(|e| format!("project to {to:?}: {e}"))?;
            if finite {
                if p.inner().as_slice().iter().any(|v| !v.is_finite()) {
                    return Err(format!("projection {shape:?} -> {to:?} of a finite spectrum is not finite"));
                }
                if (p.sum() - scs.sum()).abs() > 1e-7 * (1.0 + scs.sum().abs()) {
                    return Err(format!("projection {shape:?} -> {to:?} changed the mass {} -> {}", scs.sum(), p.sum()));
                }
            }
            let mut bigger = shape.clone();
            bigger[0] += 1;
            if scs.project(bigger).is_ok() {
                return Err("projection to a larger shape accepted".into());
            }
        }
        // write both formats and re-read
        for format in [Format::Npy, Format::Text] {
            let mut buf = Vec::new();
            write::Builder::default().set_format(format).set_precision(6).write(&mut buf, &scs).map_err(|e| format!("write {format:?}: {e}"))?;
            let out = scratch_file("rt");
            std::fs::write(&out, &buf).map_err(|e| e.to_string())?;
            let back = read::Builder::default().set_input(SfsInput::new_unchecked(Some(out.clone()))).read();
            let _ = std::fs::remove_file(&out);
            let back = back.map_err(|e| format!("sfs cannot re-read its own {format:?} output: {e}"))?;
            if back.shape() != scs.shape() {
                return Err(format!("{format:?} round trip changed the shape"));
            }
            if format == Format::Npy && back.inner().as_slice().iter().zip(scs.inner().as_slice()).any(|(a, b)| a.to_bits() != b.to_bits()) {
                return Err("npy round trip is not bit-identical".into());
            }
        }
        Ok(())
    })?;
    let _ = std::fs::remove_file(&path);
    match result {
        Some(r) => r,
        None => Ok(()),
    }
}

// ---------------------------------------------------------------------------------------------

/// bytes -> config (first 4 bytes) + input stream -> hooked genotype reader -> site reader loop.
pub fn fz_create(data: &[u8]) -> Result<(), String> {
    if data.len() < 4 {
        return Ok(());
    }
    let (cfg, input) = data.split_at(4);
    // single-threaded BGZF reader: with worker threads an allocation refused by the fuzz binary's
    // cap would panic inside a worker and abort the process instead of unwinding into `tolerate`
    let threads = 1usize;
    let _ = cfg[0];
    let sample_mode = cfg[1] % 4;
    let project = cfg[2] % 4;
    let input = input.to_vec();
    let outcome = tolerate("create over fuzzed bytes", move || -> Result<(), String> {
        let greader = match genotype::reader::Builder::default().set_threads(NonZeroUsize::new(threads).unwrap()).build_from_bufread(Cursor::new(input)) {
            Ok(r) => r,
            Err(_) => return Ok(()),
        };
        let names: Vec<String> = greader.samples().iter().map(|s| s.as_ref().to_string()).collect();
        let samples = match sample_mode {
            0 => None,
            1 => names.first().map(|n| Samples::List(vec![(Sample::from(n), Population::Unnamed)])),
            2 => Some(Samples::List(names.iter().enumerate().map(|(i, n)| (Sample::from(n), Population::from(Some(format!("p{}", i % 2))))).collect())),
            _ => Some(Samples::List(names.iter().rev().enumerate().map(|(i, n)| (Sample::from(n), if i % 3 == 0 { Population::Unnamed } else { Population::from(Some("x")) })).collect())),
        };
        let mut builder = site::reader::Builder::default().set_samples(samples);
        if project > 0 {
            builder = builder.set_project(Some(Project::Individuals(vec![(project - 1) as usize])));
        }
        let mut reader = match builder.build(greader) {
            Ok(r) => r,
            Err(_) => return Ok(()),
        };
        let mut scs: Scs = reader.create_zero_scs();
        let (mut counted, mut sites) = (0usize, 0usize);
        loop {
            match reader.read_site() {
                ReadStatus::Read(Site::Standard(c)) => {
                    let idx: &[usize] = c.as_ref();
                    if scs.inner().get(idx).is_none() {
                        return Err(format!("site {sites}: count index {idx:?} outside the spectrum of shape {:?}", scs.shape()));
                    }
                    scs[c] += 1.0;
                    counted += 1;
                }
                ReadStatus::Read(Site::Projected(p)) => {
                    p.add_unchecked(&mut scs);
                    counted += 1;
                }
                ReadStatus::Read(Site::InsufficientData) => {}
                ReadStatus::Error(_) => return Ok(()),
                ReadStatus::Done => break,
            }
            sites += 1;
            if sites > 100_000 {
                break;
            }
        }
        // conservation: every counted site has total weight one
        let mass = scs.sum();
        if (mass - counted as f64).abs() > 1e-6 * (1.0 + counted as f64) {
            return Err(format!("{counted} sites counted but the spectrum has mass {mass}"));
        }
        Ok(())
    })?;
    match outcome {
        Some(r) => r,
        None => Ok(()),
    }
}

// ---------------------------------------------------------------------------------------------

struct Cur<'a>(&'a [u8]);

impl Cur<'_> {
    fn u8(&mut self) -> u8 {
        match self.0.split_first() {
            Some((b, rest)) => {
                self.0 = rest;
                *b
            }
            None => 0,
        }
    }
}

const FZ_GTS: [&str; 29] = [
    "0/0", "0/1", "1/0", "1/1", "0|0", "0|1", "1|0", "1|1", "0/0", "0/1", "1/1", "0|1", "./.", ".|.", "./0", "1/.", ".|1", "0/2", "2/1", "2/2", "3|0", "./2", "10/11", "0/10", "0", "1", ".", "0/0/1",
    "0|1|1|1",
];

/// Decodes fuzzer bytes into a structured call set, a sample map and a projection target.
pub fn decode_callset(data: &[u8]) -> (crate::gen::callset::CallSet, crate::gen::callset::MapSpec, Option<Vec<usize>>, u8) {
    use crate::gen::callset::{CallSet, Gt, MapSpec, Record};
    let mut c = Cur(data);
    let container = c.u8() % 4;
    let n_samples = 1 + (c.u8() % 6) as usize;
    let proj = c.u8();
    let mut entries: Vec<(usize, Option<usize>)> = Vec::new();
    for i in 0..n_samples {
        match c.u8() % 5 {
            0 => {}
            1 => entries.push((i, None)),
            2 | 3 => entries.push((i, Some(0))),
            _ => entries.push((i, Some(1))),
        }
    }
    if entries.is_empty() {
        entries.push((0, None));
    }
    if proj & 2 != 0 {
        entries.reverse();
    }
    let map = MapSpec {
        entries,
        labels: vec!["A".into(), "B".into()],
        as_file: false,
    };
    let project = if proj & 1 != 0 { Some(map.pop_sizes().iter().map(|n| 1 + (c.u8() as usize) % (2 * n)).collect::<Vec<usize>>()) } else { None };
    let selected: Vec<bool> = map.assignment(n_samples).iter().map(|a| a.is_some()).collect();
    let mut records: Vec<Record> = Vec::new();
    while c.0.len() >= 2 + n_samples && records.len() < 48 {
        let hdr = c.u8();
        let step = c.u8();
        let n_alt = [1u8, 1, 1, 2, 0, 3, 1, 11][(hdr & 7) as usize];
        let gts: Vec<Gt> = (0..n_samples)
            .map(|i| {
                let mut g = Gt::parse(FZ_GTS[(c.u8() as usize) % FZ_GTS.len()]);
                for a in g.alleles.iter_mut().flatten() {
                    *a = (*a).min(n_alt as u64);
                }
                // non-diploid genotypes in selected samples only in one record out of sixteen
                if selected[i] && g.class() == crate::gen::callset::GtClass::NotDiploid && step % 16 != 15 {
                    g = Gt::diploid(Some(0), Some(0), false);
                }
                g
            })
            .collect();
        records.push(Record {
            contig: ((hdr >> 3) & 1) as usize,
            pos: 1 + step as u64,
            n_alt,
            symbolic: n_alt > 0 && hdr & 0x10 != 0,
            id: hdr & 0x20 != 0,
            qual: if hdr & 0x40 != 0 { Some(step as u16) } else { None },
            filter: step % 3,
            info: step & 63,
            fmt_dp: step & 8 != 0,
            fmt_gq: step & 16 != 0,
            ref_pad: if step == 255 { 300 } else { 0 },
            has_gt: hdr != 0xff,
            force: 0,
            gts,
        });
    }
    records.sort_by_key(|r| r.contig);
    let (mut last, mut pos) = (usize::MAX, 0u64);
    for r in records.iter_mut() {
        if r.contig != last {
            last = r.contig;
            pos = 0;
        }
        pos += r.pos;
        r.pos = pos;
    }
    let cs = CallSet {
        contigs: vec!["ctgA7".into(), "ctgBb8".into()],
        samples: (0..n_samples).map(|i| format!("s{i}")).collect(),
        records,
    };
    (cs, map, project, container)
}

/// bytes -> structured call set -> {VCF, raw BCF, BGZF VCF, BGZF BCF} bytes -> genotype reader ->
/// site reader loop; every record's fate and the final spectrum must equal the reference model.
pub fn fz_callset(data: &[u8]) -> Result<(), String> {
    use crate::model::{
        create::{create, RecordFate},
        spec::Spec,
    };
    use sfs_core::array::Shape;
    if data.len() < 8 {
        return Ok(());
    }
    let (cs, map, project, container) = decode_callset(data);
    let want = create(&cs, &map, project.as_deref());
    let bytes: Vec<u8> = match container {
        0 => cs.to_vcf().into_bytes(),
        1 => crate::gen::bcf::to_bcf(&cs).0,
        2 => crate::gen::bgzf::compress(cs.to_vcf().as_bytes(), &crate::gen::bgzf::Layout::plain()).0,
        _ => crate::gen::bgzf::compress(&crate::gen::bcf::to_bcf(&cs).0, &crate::gen::bgzf::Layout::plain()).0,
    };
    let list: Vec<(Sample, Population)> = map
        .entries
        .iter()
        .map(|(s, l)| {
            (
                Sample::from(&cs.samples[*s]),
                match l {
                    Some(l) => Population::from(Some(&map.labels[*l])),
                    None => Population::Unnamed,
                },
            )
        })
        .collect();
    let what = format!("call set of {} records x {} samples, container {container}, map {:?}, project {project:?}", cs.records.len(), cs.samples.len(), map.entries);
    let greader = genotype::reader::Builder::default()
        .set_threads(NonZeroUsize::new(1).unwrap())
        .build_from_bufread(Cursor::new(bytes))
        .map_err(|e| format!("{what}: valid input rejected by the genotype reader: {e}"))?;
    let builder = site::reader::Builder::default()
        .set_samples(Some(Samples::List(list)))
        .set_project(project.as_ref().map(|m| Project::Shape(Shape(m.iter().map(|m| m + 1).collect()))));
    let mut reader = builder.build(greader).map_err(|e| format!("{what}: site reader builder failed: {e}"))?;
    let mut scs: Scs = reader.create_zero_scs();
    let mut i = 0usize;
    loop {
        let status = reader.read_site();
        let expected = want.fates.get(i);
        match status {
            ReadStatus::Read(site) => {
                let counted = match site {
                    Site::Standard(c) => {
                        let idx: &[usize] = c.as_ref();
                        if scs.inner().get(idx).is_none() {
                            return Err(format!("{what}: record {i}: count index {idx:?} outside the spectrum"));
                        }
                        scs[c] += 1.0;
                        true
                    }
                    Site::Projected(p) => {
                        p.add_unchecked(&mut scs);
                        true
                    }
                    Site::InsufficientData => false,
                };
                match expected {
                    Some(RecordFate::Counted) if counted => {}
                    Some(RecordFate::Skipped) if !counted => {}
                    other => return Err(format!("{what}: record {i} was {} but the model says {other:?}", if counted { "counted" } else { "skipped" })),
                }
            }
            ReadStatus::Error(e) => {
                if want.first_error != Some(i) {
                    return Err(format!("{what}: record {i} failed with {e} but the model expects {expected:?} (first ploidy error at {:?})", want.first_error));
                }
                return Ok(());
            }
            ReadStatus::Done => {
                if i != cs.records.len() || want.first_error.is_some() {
                    return Err(format!("{what}: stream ended after {i} records; the model has {} records and a first ploidy error at {:?}", cs.records.len(), want.first_error));
                }
                break;
            }
        }
        i += 1;
    }
    let got = Spec::from_scs(&scs);
    if got.shape != want.spectrum.shape {
        return Err(format!("{what}: shape {:?}, model {:?}", got.shape, want.spectrum.shape));
    }
    for (k, (g, w)) in got.values.iter().zip(&want.spectrum.values).enumerate() {
        let ok = if project.is_none() { g == w } else { (g - w).abs() <= 1e-9 * (1.0 + w.abs()) };
        if !ok {
            return Err(format!("{what}: flat entry {k} is {g}, model {w}"));
        }
    }
    Ok(())
}

pub fn run_target(name: &str, data: &[u8]) -> Result<(), String> {
    match name {
        "fz_npy" => fz_npy(data),
        "fz_spectrum" => fz_spectrum(data),
        "fz_create" => fz_create(data),
        "fz_callset" => fz_callset(data),
        other => Err(format!("unknown fuzz target {other}")),
    }
}
