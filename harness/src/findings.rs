//! known_findings.txt: `open:` lines suppress exactly the cases matching their signature (and are
//! announced with a KNOWN-FINDING line); `fixed:` lines suppress nothing.

use std::path::Path;

#[derive(Debug, Clone)]
pub struct Open {
    pub property: String,
    pub sig: String,
    pub what: String,
}

#[derive(Debug, Default, Clone)]
pub struct Findings {
    pub open: Vec<Open>,
    pub fixed: Vec<String>,
}

impl Findings {
    pub fn load(path: &Path) -> Self {
        let mut out = Findings::default();
        let Ok(text) = std::fs::read_to_string(path) else {
            return out;
        };
        for line in text.lines() {
            let line = line.trim();
            if let Some(rest) = line.strip_prefix("open:") {
                let rest = rest.trim();
                let mut property = String::new();
                let mut sig = String::new();
                let mut what = Vec::new();
                for tok in rest.split(' ') {
                    if let Some(p) = tok.strip_prefix("property=") {
                        if property.is_empty() {
                            property = p.to_string();
                            continue;
                        }
                    }
                    if let Some(s) = tok.strip_prefix("sig=") {
                        if sig.is_empty() {
                            sig = s.to_string();
                            continue;
                        }
                    }
                    what.push(tok);
                }
                if !property.is_empty() && !sig.is_empty() {
                    out.open.push(Open {
                        property,
                        sig,
                        what: what.join(" "),
                    });
                }
            } else if let Some(rest) = line.strip_prefix("fixed:") {
                out.fixed.push(rest.trim().to_string());
            }
        }
        out
    }

    /// Is there an open finding for this property with exactly this signature?
    pub fn is_open(&self, property: &str, sig: &str) -> bool {
        self.open.iter().any(|o| o.property == property && o.sig == sig)
    }

    pub fn open_for<'a>(&'a self, property: &'a str) -> impl Iterator<Item = &'a Open> + 'a {
        self.open.iter().filter(move |o| o.property == property)
    }
}
