pub mod create;
pub mod hyper;
pub mod npy;
pub mod spec;
