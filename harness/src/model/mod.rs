pub mod hyper;
pub mod npy;
pub mod spec;
