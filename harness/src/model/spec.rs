//! Naive reference implementations of the spectrum operations, written from the property
//! statements (nested index loops, no strides, no views).

use serde::{Deserialize, Serialize};

use crate::gen::shapes::{elements, flat, odometer};

use super::hyper;

#[derive(Clone, Debug, PartialEq, Serialize, Deserialize)]
pub struct Spec {
    pub shape: Vec<usize>,
    pub values: Vec<f64>,
}

impl Spec {
    pub fn new(shape: Vec<usize>, values: Vec<f64>) -> Self {
        assert_eq!(elements(&shape), values.len());
        Self { shape, values }
    }

    pub fn zeros(shape: Vec<usize>) -> Self {
        let n = elements(&shape);
        Self { shape, values: vec![0.0; n] }
    }

    pub fn dims(&self) -> usize {
        self.shape.len()
    }

    pub fn sum(&self) -> f64 {
        self.values.iter().sum()
    }

    pub fn to_scs(&self) -> sfs_core::Scs {
        sfs_core::Scs::new(self.values.clone(), self.shape.clone()).expect("shape fits")
    }

    pub fn from_scs<S: sfs_core::spectrum::State>(s: &sfs_core::Spectrum<S>) -> Self {
        Self {
            shape: s.shape().as_ref().to_vec(),
            values: s.inner().as_slice().to_vec(),
        }
    }

    /// Sum over the axes in `remove` (a set; order irrelevant); kept axes stay in original order.
    pub fn marginalize(&self, remove: &[usize]) -> Spec {
        let keep: Vec<usize> = (0..self.dims()).filter(|a| !remove.contains(a)).collect();
        let new_shape: Vec<usize> = keep.iter().map(|&a| self.shape[a]).collect();
        let mut out = Spec::zeros(new_shape.clone());
        for idx in odometer(&self.shape) {
            let reduced: Vec<usize> = keep.iter().map(|&a| idx[a]).collect();
            out.values[flat(&new_shape, &reduced)] += self.values[flat(&self.shape, &idx)];
        }
        out
    }

    /// Mirror: every index k_j replaced by n_j - k_j.
    pub fn mirror(&self) -> Spec {
        let mut out = Spec::zeros(self.shape.clone());
        for idx in odometer(&self.shape) {
            let m: Vec<usize> = idx.iter().zip(&self.shape).map(|(k, n)| n - 1 - k).collect();
            out.values[flat(&self.shape, &m)] = self.values[flat(&self.shape, &idx)];
        }
        out
    }

    /// Fold per the statement of C05: s vs T/2 compared as 2s vs T.
    pub fn fold(&self, fill: f64) -> Spec {
        let total: usize = self.shape.iter().map(|n| n - 1).sum();
        let mut out = Spec::zeros(self.shape.clone());
        for idx in odometer(&self.shape) {
            let s: usize = idx.iter().sum();
            let m: Vec<usize> = idx.iter().zip(&self.shape).map(|(k, n)| n - 1 - k).collect();
            let here = self.values[flat(&self.shape, &idx)];
            let there = self.values[flat(&self.shape, &m)];
            let v = if 2 * s < total {
                here + there
            } else if 2 * s == total {
                0.5 * here + 0.5 * there
            } else {
                fill
            };
            out.values[flat(&self.shape, &idx)] = v;
        }
        out
    }

    /// Transpose axes: new axis j is old axis perm[j].
    pub fn permute_axes(&self, perm: &[usize]) -> Spec {
        let new_shape: Vec<usize> = perm.iter().map(|&a| self.shape[a]).collect();
        let mut out = Spec::zeros(new_shape.clone());
        for idx in odometer(&self.shape) {
            let nidx: Vec<usize> = perm.iter().map(|&a| idx[a]).collect();
            out.values[flat(&new_shape, &nidx)] = self.values[flat(&self.shape, &idx)];
        }
        out
    }

    /// Projection by the direct double sum of the statement of C03. `to` is the target shape.
    pub fn project(&self, to: &[usize]) -> Spec {
        assert_eq!(to.len(), self.dims());
        let pm = ProjMatrix::new(&self.shape, to);
        let mut out = Spec::zeros(to.to_vec());
        let targets = odometer(to);
        for idx in odometer(&self.shape) {
            let x = self.values[flat(&self.shape, &idx)];
            if x == 0.0 {
                continue;
            }
            for t in &targets {
                out.values[flat(to, t)] += x * pm.coef(&idx, t);
            }
        }
        out
    }

    pub fn normalize(&self) -> Spec {
        let s = self.sum();
        Spec {
            shape: self.shape.clone(),
            values: self.values.iter().map(|v| v / s).collect(),
        }
    }

    pub fn mask_monomorphic(&self) -> Spec {
        let mut out = self.clone();
        let n = out.values.len();
        out.values[0] = 0.0;
        out.values[n - 1] = 0.0;
        out
    }

    pub fn add(&mut self, other: &Spec) {
        assert_eq!(self.shape, other.shape);
        for (a, b) in self.values.iter_mut().zip(&other.values) {
            *a += b;
        }
    }
}

/// Per-axis hypergeometric tables for a projection from shape `from` to shape `to`.
pub struct ProjMatrix {
    /// tables[j][k][k'] = H(k'; n_j, k, m_j)
    tables: Vec<Vec<Vec<f64>>>,
}

impl ProjMatrix {
    pub fn new(from: &[usize], to: &[usize]) -> Self {
        let tables = from
            .iter()
            .zip(to)
            .map(|(&f, &t)| {
                let n = (f - 1) as u64;
                let m = (t - 1) as u64;
                (0..=n).map(|k| hyper::pmf(n, k, m)).collect()
            })
            .collect();
        Self { tables }
    }

    pub fn coef(&self, from_idx: &[usize], to_idx: &[usize]) -> f64 {
        let mut c = 1.0;
        for (j, (k, kp)) in from_idx.iter().zip(to_idx).enumerate() {
            c *= self.tables[j][*k][*kp];
        }
        c
    }
}

/// Deterministic non-ramp integer fill (small non-negative integers from a hash of the position).
pub fn hashed_ints(shape: &[usize], salt: u64, modulus: u64) -> Vec<f64> {
    let n = elements(shape);
    (0..n as u64)
        .map(|i| (crate::engine::splitmix64(i.wrapping_mul(0x9E37_79B9) ^ salt) % modulus) as f64)
        .collect()
}

/// Relative closeness with an absolute floor scaled by `scale`.
pub fn close(a: f64, b: f64, rel: f64, scale: f64) -> bool {
    if a == b {
        return true;
    }
    if a.is_nan() || b.is_nan() {
        return a.is_nan() && b.is_nan();
    }
    (a - b).abs() <= rel * (a.abs().max(b.abs()).max(scale))
}
