//! Independent NPY oracle written from the NumPy format specification (numpy.lib.format):
//! a writer that lays files out exactly as numpy does, and a strict validator/parser.

use serde::{Deserialize, Serialize};

pub const MAGIC: &[u8; 6] = b"\x93NUMPY";

#[derive(Clone, Copy, Debug, PartialEq, Eq, Serialize, Deserialize)]
pub enum Dtype {
    F4,
    F8,
    I1,
    I2,
    I4,
    I8,
    U1,
    U2,
    U4,
    U8,
}

pub const ALL_DTYPES: [Dtype; 10] = [Dtype::F4, Dtype::F8, Dtype::I1, Dtype::I2, Dtype::I4, Dtype::I8, Dtype::U1, Dtype::U2, Dtype::U4, Dtype::U8];

impl Dtype {
    pub fn size(self) -> usize {
        match self {
            Dtype::I1 | Dtype::U1 => 1,
            Dtype::I2 | Dtype::U2 => 2,
            Dtype::F4 | Dtype::I4 | Dtype::U4 => 4,
            Dtype::F8 | Dtype::I8 | Dtype::U8 => 8,
        }
    }
    pub fn code(self) -> &'static str {
        match self {
            Dtype::F4 => "f4",
            Dtype::F8 => "f8",
            Dtype::I1 => "i1",
            Dtype::I2 => "i2",
            Dtype::I4 => "i4",
            Dtype::I8 => "i8",
            Dtype::U1 => "u1",
            Dtype::U2 => "u2",
            Dtype::U4 => "u4",
            Dtype::U8 => "u8",
        }
    }
}

#[derive(Clone, Copy, Debug, PartialEq, Eq, Serialize, Deserialize)]
pub enum Order {
    Little,
    Big,
}

/// A scalar of some dtype, stored as its raw little-endian bit pattern widened to u64.
#[derive(Clone, Copy, Debug, PartialEq, Serialize, Deserialize)]
pub enum Scalar {
    F64(f64),
    Bits(u64),
}

/// The value numpy's `astype('<f8')` gives for the raw bits of one element of `dtype`.
/// 64-bit integers are converted as hi * 2^32 + lo with a single rounding.
pub fn bits_to_f64(dtype: Dtype, bits: u64) -> f64 {
    match dtype {
        Dtype::F8 => f64::from_bits(bits),
        Dtype::F4 => f32::from_bits(bits as u32) as f64,
        Dtype::I1 => (bits as u8 as i8) as i32 as f64,
        Dtype::I2 => (bits as u16 as i16) as i32 as f64,
        Dtype::I4 => (bits as u32 as i32) as f64,
        Dtype::U1 => (bits as u8) as u32 as f64,
        Dtype::U2 => (bits as u16) as u32 as f64,
        Dtype::U4 => (bits as u32) as f64,
        Dtype::U8 => {
            let hi = (bits >> 32) as u32 as f64;
            let lo = (bits & 0xffff_ffff) as u32 as f64;
            hi * 4294967296.0 + lo
        }
        Dtype::I8 => {
            let hi = ((bits as i64) >> 32) as i32 as f64;
            let lo = (bits & 0xffff_ffff) as u32 as f64;
            hi * 4294967296.0 + lo
        }
    }
}

pub fn descr(dtype: Dtype, order: Order) -> String {
    let prefix = if dtype.size() == 1 {
        "|"
    } else {
        match order {
            Order::Little => "<",
            Order::Big => ">",
        }
    };
    format!("{prefix}{}", dtype.code())
}

pub fn shape_tuple(shape: &[usize]) -> String {
    match shape.len() {
        0 => "()".to_string(),
        1 => format!("({},)", shape[0]),
        _ => format!("({})", shape.iter().map(|s| s.to_string()).collect::<Vec<_>>().join(", ")),
    }
}

pub fn numpy_dict(descr: &str, fortran: bool, shape: &[usize]) -> String {
    format!(
        "{{'descr': '{descr}', 'fortran_order': {}, 'shape': {}, }}",
        if fortran { "True" } else { "False" },
        shape_tuple(shape)
    )
}

/// Wraps a header dict string the way numpy's `_wrap_header` does (ARRAY_ALIGN = 64).
pub fn wrap_header(dict: &str, version: u8, align: usize) -> Vec<u8> {
    let len_bytes = if version == 1 { 2 } else { 4 };
    let hlen = dict.len() + 1;
    let padlen = align - ((8 + len_bytes + hlen) % align);
    let mut header = dict.as_bytes().to_vec();
    header.extend(std::iter::repeat(b' ').take(padlen));
    header.push(b'\n');
    let mut out = MAGIC.to_vec();
    out.push(version);
    out.push(0);
    if version == 1 {
        out.extend((header.len() as u16).to_le_bytes());
    } else {
        out.extend((header.len() as u32).to_le_bytes());
    }
    out.extend(header);
    out
}

pub fn encode_element(dtype: Dtype, order: Order, bits: u64, out: &mut Vec<u8>) {
    let le = bits.to_le_bytes();
    let n = dtype.size();
    match order {
        Order::Little => out.extend(&le[..n]),
        Order::Big => out.extend(le[..n].iter().rev()),
    }
}

pub fn scalar_bits(dtype: Dtype, s: &Scalar) -> u64 {
    match (dtype, s) {
        (_, Scalar::Bits(b)) => *b,
        (Dtype::F8, Scalar::F64(v)) => v.to_bits(),
        (Dtype::F4, Scalar::F64(v)) => (*v as f32).to_bits() as u64,
        (_, Scalar::F64(v)) => (*v as i64) as u64,
    }
}

/// A complete file as numpy writes it.
pub fn write_numpy_like(shape: &[usize], dtype: &Dtype, order: Order, version: u8, values: &[Scalar]) -> Vec<u8> {
    let dict = numpy_dict(&descr(*dtype, order), false, shape);
    let mut out = wrap_header(&dict, version, 64);
    for v in values {
        encode_element(*dtype, order, scalar_bits(*dtype, v), &mut out);
    }
    out
}

// ---------------------------------------------------------------------------------------------
// strict parser / validator

#[derive(Debug, Clone, PartialEq)]
pub enum PyVal {
    Str(String),
    Bool(bool),
    Int(u64),
    Tuple(Vec<PyVal>),
}

struct P<'a> {
    s: &'a [u8],
    i: usize,
}

impl<'a> P<'a> {
    fn ws(&mut self) {
        while self.i < self.s.len() && (self.s[self.i] == b' ' || self.s[self.i] == b'\t') {
            self.i += 1;
        }
    }
    fn peek(&self) -> Option<u8> {
        self.s.get(self.i).copied()
    }
    fn eat(&mut self, c: u8) -> Result<(), String> {
        if self.peek() == Some(c) {
            self.i += 1;
            Ok(())
        } else {
            Err(format!("expected {:?} at offset {}, found {:?}", c as char, self.i, self.peek().map(|b| b as char)))
        }
    }
    fn string(&mut self) -> Result<String, String> {
        let q = self.peek().ok_or("eof in string")?;
        if q != b'\'' && q != b'"' {
            return Err(format!("expected a quote at offset {}", self.i));
        }
        self.i += 1;
        let start = self.i;
        while self.i < self.s.len() && self.s[self.i] != q {
            if self.s[self.i] == b'\\' {
                return Err("escape sequences are not expected in an npy header".into());
            }
            self.i += 1;
        }
        if self.i >= self.s.len() {
            return Err("unterminated string".into());
        }
        let out = String::from_utf8(self.s[start..self.i].to_vec()).map_err(|e| e.to_string())?;
        self.i += 1;
        Ok(out)
    }
    fn value(&mut self) -> Result<PyVal, String> {
        self.ws();
        match self.peek() {
            Some(b'\'') | Some(b'"') => Ok(PyVal::Str(self.string()?)),
            Some(b'T') if self.s[self.i..].starts_with(b"True") => {
                self.i += 4;
                Ok(PyVal::Bool(true))
            }
            Some(b'F') if self.s[self.i..].starts_with(b"False") => {
                self.i += 5;
                Ok(PyVal::Bool(false))
            }
            Some(c) if c.is_ascii_digit() => {
                let start = self.i;
                while self.peek().map(|c| c.is_ascii_digit()).unwrap_or(false) {
                    self.i += 1;
                }
                let t = std::str::from_utf8(&self.s[start..self.i]).unwrap();
                if t.len() > 1 && t.starts_with('0') {
                    return Err(format!("integer literal with leading zero {t:?}"));
                }
                Ok(PyVal::Int(t.parse::<u64>().map_err(|e| e.to_string())?))
            }
            Some(b'(') => {
                self.i += 1;
                let mut items = Vec::new();
                let mut trailing_comma = false;
                loop {
                    self.ws();
                    if self.peek() == Some(b')') {
                        self.i += 1;
                        break;
                    }
                    items.push(self.value()?);
                    self.ws();
                    if self.peek() == Some(b',') {
                        self.i += 1;
                        trailing_comma = true;
                    } else {
                        trailing_comma = false;
                        self.ws();
                        self.eat(b')')?;
                        break;
                    }
                }
                if items.len() == 1 && !trailing_comma {
                    // (5) is an int in Python, not a tuple
                    return Ok(items.pop().unwrap());
                }
                Ok(PyVal::Tuple(items))
            }
            other => Err(format!("unexpected {:?} at offset {}", other.map(|b| b as char), self.i)),
        }
    }
    fn dict(&mut self) -> Result<Vec<(String, PyVal)>, String> {
        self.ws();
        self.eat(b'{')?;
        let mut out = Vec::new();
        loop {
            self.ws();
            if self.peek() == Some(b'}') {
                self.i += 1;
                break;
            }
            let k = self.string()?;
            self.ws();
            self.eat(b':')?;
            let v = self.value()?;
            out.push((k, v));
            self.ws();
            if self.peek() == Some(b',') {
                self.i += 1;
            } else {
                self.ws();
                self.eat(b'}')?;
                break;
            }
        }
        Ok(out)
    }
}

#[derive(Debug, Clone, PartialEq)]
pub struct Parsed {
    pub version: (u8, u8),
    pub header_len: usize,
    pub data_offset: usize,
    pub descr: String,
    pub fortran: bool,
    pub shape: Vec<usize>,
    pub header_text: String,
}

/// Parses the header as Python's `ast.literal_eval` + numpy's checks would.
pub fn parse_header(bytes: &[u8]) -> Result<Parsed, String> {
    if bytes.len() < 10 {
        return Err("shorter than the fixed preamble".into());
    }
    if &bytes[..6] != MAGIC {
        return Err("bad magic".into());
    }
    let version = (bytes[6], bytes[7]);
    let (header_len, start): (usize, usize) = match version {
        (1, 0) => (u16::from_le_bytes([bytes[8], bytes[9]]) as usize, 10),
        (2, 0) | (3, 0) => {
            if bytes.len() < 12 {
                return Err("truncated header length".into());
            }
            (u32::from_le_bytes([bytes[8], bytes[9], bytes[10], bytes[11]]) as usize, 12)
        }
        v => return Err(format!("unsupported version {v:?}")),
    };
    let end = start.checked_add(header_len).ok_or("overflow")?;
    if bytes.len() < end {
        return Err("truncated header".into());
    }
    let header = &bytes[start..end];
    let text = std::str::from_utf8(header).map_err(|e| e.to_string())?.to_string();
    let mut p = P { s: header, i: 0 };
    let entries = p.dict()?;
    // after the dict: only spaces and the final newline
    let rest = &header[p.i..];
    if !rest.iter().all(|&b| b == b' ' || b == b'\n') {
        return Err(format!("unexpected bytes after the dict: {:?}", String::from_utf8_lossy(rest)));
    }
    let mut keys: Vec<&str> = entries.iter().map(|(k, _)| k.as_str()).collect();
    keys.sort();
    if keys != ["descr", "fortran_order", "shape"] {
        return Err(format!("header keys are {keys:?}"));
    }
    let mut descr = String::new();
    let mut fortran = false;
    let mut shape = Vec::new();
    for (k, v) in entries {
        match (k.as_str(), v) {
            ("descr", PyVal::Str(s)) => descr = s,
            ("fortran_order", PyVal::Bool(b)) => fortran = b,
            ("shape", PyVal::Tuple(items)) => {
                for it in items {
                    match it {
                        PyVal::Int(n) => shape.push(n as usize),
                        other => return Err(format!("shape item {other:?} is not an int")),
                    }
                }
            }
            (k, v) => return Err(format!("entry {k:?} has the wrong type: {v:?}")),
        }
    }
    Ok(Parsed {
        version,
        header_len,
        data_offset: end,
        descr,
        fortran,
        shape,
        header_text: text,
    })
}

/// Full conformance check of a file that claims to be what sfs writes: NPY 1.0, '<f8', C order.
/// Returns the parsed shape and the payload as f64 bit patterns.
pub fn validate_sfs_output(bytes: &[u8]) -> Result<(Vec<usize>, Vec<u64>), String> {
    let p = parse_header(bytes)?;
    if p.version != (1, 0) {
        return Err(format!("version {:?}, expected (1, 0)", p.version));
    }
    if p.data_offset % 64 != 0 {
        return Err(format!("data starts at offset {}, not a multiple of 64", p.data_offset));
    }
    let header = &bytes[10..p.data_offset];
    if !header.is_ascii() {
        return Err("header is not ASCII".into());
    }
    if header.last() != Some(&b'\n') {
        return Err("header does not end with a newline".into());
    }
    if header[..header.len() - 1].contains(&b'\n') {
        return Err("newline inside the header".into());
    }
    let close = header.iter().rposition(|&b| b == b'}').ok_or("no closing brace")?;
    if !header[close + 1..header.len() - 1].iter().all(|&b| b == b' ') {
        return Err("padding is not spaces".into());
    }
    if p.descr != "<f8" {
        return Err(format!("descr {:?}, expected '<f8'", p.descr));
    }
    if p.fortran {
        return Err("fortran_order is True".into());
    }
    let n: usize = p.shape.iter().product();
    let payload = &bytes[p.data_offset..];
    if payload.len() != n * 8 {
        return Err(format!("payload has {} bytes, shape {:?} needs {}", payload.len(), p.shape, n * 8));
    }
    let values = payload.chunks_exact(8).map(|c| u64::from_le_bytes(c.try_into().unwrap())).collect();
    Ok((p.shape, values))
}

#[cfg(test)]
mod tests {
    use super::*;
    #[test]
    fn roundtrip() {
        let bytes = write_numpy_like(&[2, 3], &Dtype::F8, Order::Little, 1, &(0..6).map(|v| Scalar::F64(v as f64)).collect::<Vec<_>>());
        assert_eq!(bytes.len() % 64, 48);
        let (shape, vals) = validate_sfs_output(&bytes).unwrap();
        assert_eq!(shape, vec![2, 3]);
        assert_eq!(vals[5], 5.0f64.to_bits());
        assert_eq!(bits_to_f64(Dtype::I8, (-3i64) as u64), -3.0);
        assert_eq!(bits_to_f64(Dtype::U8, u64::MAX), 18446744073709551616.0);
        assert_eq!(bits_to_f64(Dtype::I8, i64::MIN as u64), -9223372036854775808.0);
        assert_eq!(bits_to_f64(Dtype::I8, ((1i64 << 53) + 1) as u64), ((1i64 << 53) + 1) as f64);
        assert_eq!(bits_to_f64(Dtype::U8, (1u64 << 53) + 3), ((1u64 << 53) + 3) as f64);
    }
}
