//! Hypergeometric oracle, independent of sfs's utils.rs (no factorial table, no gamma function).
//!
//! H(k; N, K, n): probability of k successes in n draws without replacement from a population of
//! N with K successes.

/// Exact binomial coefficient in u128 (None on overflow).
pub fn binom_u128(n: u64, k: u64) -> Option<u128> {
    if k > n {
        return Some(0);
    }
    let k = k.min(n - k);
    let mut r: u128 = 1;
    for i in 1..=k as u128 {
        // r * (n - k + i) / i is always an integer
        r = r.checked_mul(n as u128 - k as u128 + i)? / i;
    }
    Some(r)
}

/// The pmf over k = 0..=n (zero outside the support).
pub fn pmf(size: u64, successes: u64, draws: u64) -> Vec<f64> {
    assert!(successes <= size && draws <= size);
    let (nn, kk, n) = (size, successes, draws);
    let lo = (n + kk).saturating_sub(nn);
    let hi = n.min(kk);
    // exact path for small sizes
    if nn <= 100 {
        let mut out = vec![0.0f64; n as usize + 1];
        let denom = binom_u128(nn, n).unwrap() as f64;
        for k in lo..=hi {
            let num = binom_u128(kk, k).unwrap() * binom_u128(nn - kk, n - k).unwrap();
            out[k as usize] = num as f64 / denom;
        }
        return out;
    }
    pmf_recurrence(size, successes, draws)
}

/// Ratio recurrence p(k+1)/p(k) = (K-k)(n-k)/((k+1)(N-K-n+k+1)) outward from the mode.
pub fn pmf_recurrence(size: u64, successes: u64, draws: u64) -> Vec<f64> {
    let (nn, kk, n) = (size, successes, draws);
    let lo = (n + kk).saturating_sub(nn);
    let hi = n.min(kk);
    let mut out = vec![0.0f64; n as usize + 1];
    // ratio recurrence outward from the mode, normalised by its own sum
    let mode = (((n + 1) as u128 * (kk + 1) as u128) / (nn + 2) as u128) as u64;
    let mode = mode.clamp(lo, hi);
    let ratio_up = |k: u64| -> f64 {
        // p(k+1)/p(k)
        ((kk - k) as f64 * (n - k) as f64) / ((k + 1) as f64 * (nn - kk + k + 1 - n) as f64)
    };
    out[mode as usize] = 1.0;
    let mut k = mode;
    while k < hi {
        let next = out[k as usize] * ratio_up(k);
        out[k as usize + 1] = next;
        k += 1;
        if next == 0.0 {
            break;
        }
    }
    let mut k = mode;
    while k > lo {
        let prev = out[k as usize] / ratio_up(k - 1);
        out[k as usize - 1] = prev;
        k -= 1;
        if prev == 0.0 {
            break;
        }
    }
    // compensated sum
    let mut sum = 0.0f64;
    let mut c = 0.0f64;
    for &v in &out {
        let y = v - c;
        let t = sum + y;
        c = (t - sum) - y;
        sum = t;
    }
    for v in out.iter_mut() {
        *v /= sum;
    }
    out
}

pub fn h(k: u64, size: u64, successes: u64, draws: u64) -> f64 {
    if k > draws {
        0.0
    } else {
        pmf(size, successes, draws)[k as usize]
    }
}

#[cfg(test)]
mod tests {
    use super::*;
    #[test]
    fn small_exact() {
        assert_eq!(binom_u128(10, 3), Some(120));
        let p = pmf(10, 7, 8);
        assert!((p[5] - 0.4666667).abs() < 1e-6);
        let p = pmf(6, 2, 2);
        assert!((p[0] - 6.0 / 15.0).abs() < 1e-15);
    }
    #[test]
    fn recurrence_matches_exact() {
        // compare the recurrence branch with the exact branch by calling both on N <= 60 data
        for nn in [1u64, 2, 3, 7, 20, 60, 99, 100] {
            for kk in 0..=nn {
                for n in 0..=nn {
                    let exact = pmf(nn, kk, n);
                    let rec = pmf_recurrence(nn, kk, n);
                    for (a, b) in exact.iter().zip(&rec) {
                        assert!((a - b).abs() <= 1e-13 * a.max(1e-300) + 1e-300, "{nn} {kk} {n}: {a} vs {b}");
                    }
                }
            }
        }
        for (nn, kk, n) in [(200u64, 77u64, 50u64), (2400, 1200, 1200), (5000, 1, 2500), (1031, 1031, 500)] {
            let p = pmf(nn, kk, n);
            let s: f64 = p.iter().sum();
            assert!((s - 1.0).abs() < 1e-12);
            let mean: f64 = p.iter().enumerate().map(|(k, p)| k as f64 * p).sum();
            assert!((mean - n as f64 * kk as f64 / nn as f64).abs() < 1e-8 * n as f64);
        }
    }
}
