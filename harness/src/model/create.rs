//! Reference model of `sfs create`, written from the statements of C01/C02/C08/C09/C10 on the
//! structured call set (never re-parsing rendered text).

use serde::{Deserialize, Serialize};

use crate::{
    gen::{
        callset::{CallSet, GtClass, MapSpec},
        shapes::{flat, odometer},
    },
    model::{hyper, spec::Spec},
};

#[derive(Clone, Debug, PartialEq, Serialize, Deserialize)]
pub enum RecordFate {
    /// counted with total weight one
    Counted,
    /// skipped (missing / multiallelic among the selected samples, or too few called chromosomes)
    Skipped,
    /// a selected sample is not diploid: the run fails here
    PloidyError,
}

#[derive(Clone, Debug, Serialize, Deserialize)]
pub struct CreateOut {
    pub spectrum: Spec,
    pub fates: Vec<RecordFate>,
    /// index of the first record with a ploidy error in a selected sample
    pub first_error: Option<usize>,
    /// index of the first skipped record
    pub first_skipped: Option<usize>,
    /// fates / spectrum only cover records before `first_error`
    pub skipped: usize,
    pub counted: usize,
    /// number of records contributing through the hypergeometric (not exactly sufficient)
    pub projected_down: usize,
    pub exactly_sufficient: usize,
    pub insufficient: usize,
}

/// `project`: target number of chromosomes m_j per population (output shape m_j + 1).
pub fn create(cs: &CallSet, map: &MapSpec, project: Option<&[usize]>) -> CreateOut {
    let sizes = map.pop_sizes();
    let d = sizes.len();
    let assignment = map.assignment(cs.samples.len());
    let shape: Vec<usize> = match project {
        Some(m) => m.iter().map(|m| m + 1).collect(),
        None => sizes.iter().map(|n| 2 * n + 1).collect(),
    };
    let mut out = CreateOut {
        spectrum: Spec::zeros(shape.clone()),
        fates: Vec::new(),
        first_error: None,
        first_skipped: None,
        skipped: 0,
        counted: 0,
        projected_down: 0,
        exactly_sufficient: 0,
        insufficient: 0,
    };
    let targets = odometer(&shape);
    for (ri, rec) in cs.records.iter().enumerate() {
        let mut alt = vec![0usize; d];
        let mut called = vec![0usize; d];
        let mut any_skip = false;
        let mut ploidy = false;
        for (si, pop) in assignment.iter().enumerate() {
            let Some(pop) = pop else { continue };
            match rec.gt_of(si).class() {
                GtClass::Call(k) => {
                    alt[*pop] += k as usize;
                    called[*pop] += 2;
                }
                GtClass::Missing | GtClass::Multiallelic | GtClass::MissingAndMultiallelic => any_skip = true,
                GtClass::NotDiploid => ploidy = true,
            }
        }
        if ploidy {
            out.fates.push(RecordFate::PloidyError);
            out.first_error = Some(ri);
            break;
        }
        let fate = match project {
            None => {
                if any_skip {
                    RecordFate::Skipped
                } else {
                    out.spectrum.values[flat(&shape, &alt)] += 1.0;
                    RecordFate::Counted
                }
            }
            Some(m) => {
                if called.iter().zip(m).all(|(t, m)| t >= m) {
                    if called.iter().zip(m).all(|(t, m)| t == m) {
                        out.exactly_sufficient += 1;
                    } else {
                        out.projected_down += 1;
                    }
                    let pmfs: Vec<Vec<f64>> = (0..d).map(|j| hyper::pmf(called[j] as u64, alt[j] as u64, m[j] as u64)).collect();
                    for t in &targets {
                        let mut c = 1.0;
                        for j in 0..d {
                            c *= pmfs[j][t[j]];
                        }
                        out.spectrum.values[flat(&shape, t)] += c;
                    }
                    RecordFate::Counted
                } else {
                    out.insufficient += 1;
                    RecordFate::Skipped
                }
            }
        };
        match fate {
            RecordFate::Counted => out.counted += 1,
            RecordFate::Skipped => {
                out.skipped += 1;
                if out.first_skipped.is_none() {
                    out.first_skipped = Some(ri);
                }
            }
            RecordFate::PloidyError => unreachable!(),
        }
        out.fates.push(fate);
    }
    out
}
