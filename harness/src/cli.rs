//! Subprocess runner for the real `sfs` binary (dev profile: overflow checks and debug assertions).

use std::{
    collections::{HashMap, HashSet},
    io::Write,
    os::unix::process::ExitStatusExt,
    path::Path,
    process::{Command, Stdio},
    sync::{atomic::Ordering, Mutex, OnceLock},
    time::{Duration, Instant},
};

use crate::engine::{Ctx, Failure};

pub enum Input<'a> {
    Null,
    File(&'a Path),
    /// Bytes written through an OS pipe by a helper thread.
    Pipe(&'a [u8]),
}

#[derive(Debug, Clone)]
pub struct Run {
    pub code: Option<i32>,
    pub signal: Option<i32>,
    pub stdout: Vec<u8>,
    pub stderr: Vec<u8>,
    pub timed_out: bool,
    pub elapsed_ms: u64,
}

impl Run {
    pub fn ok(&self) -> bool {
        self.code == Some(0)
    }
    pub fn stdout_str(&self) -> String {
        String::from_utf8_lossy(&self.stdout).into_owned()
    }
    pub fn stderr_str(&self) -> String {
        String::from_utf8_lossy(&self.stderr).into_owned()
    }
    /// The child hit the address-space cap the harness imposes (see `ADDRESS_SPACE_LIMIT`).
    pub fn allocation_failed(&self) -> bool {
        if !CAP_ADDRESS_SPACE.load(Ordering::Relaxed) {
            return false;
        }
        let e = self.stderr_str();
        (self.signal == Some(libc::SIGABRT) && e.contains("memory allocation of") && !e.contains("panicked at"))
            || e.contains("failed to allocate an alternative stack")
            || (e.contains("failed to spawn thread") && (e.contains("WouldBlock") || e.contains("Cannot allocate memory")))
    }
    pub fn panicked(&self) -> bool {
        !self.allocation_failed() && (self.code == Some(101) || self.signal.is_some() || self.stderr_str().contains("panicked at"))
    }
    /// A clean failure: non-zero exit, a diagnostic on stderr, no panic.
    pub fn clean_failure(&self) -> bool {
        matches!(self.code, Some(c) if c != 0) && !self.panicked() && !self.stderr.iter().all(|b| b.is_ascii_whitespace())
    }
    pub fn describe(&self) -> String {
        format!(
            "exit={:?} signal={:?} stdout={:?} stderr={:?}",
            self.code,
            self.signal,
            cut(&self.stdout_str(), 600),
            cut(&self.stderr_str(), 600)
        )
    }
}

pub fn cut(s: &str, n: usize) -> String {
    if s.len() <= n {
        s.to_string()
    } else {
        let mut end = n;
        while !s.is_char_boundary(end) {
            end -= 1;
        }
        format!("{}…[{} bytes]", &s[..end], s.len())
    }
}

const TIMEOUT: Duration = Duration::from_secs(60);
pub const ADDRESS_SPACE_LIMIT: u64 = 1 << 29; // 512 MiB
/// Enabled by the checks that feed hostile bytes to the binary (C17).
pub static CAP_ADDRESS_SPACE: std::sync::atomic::AtomicBool = std::sync::atomic::AtomicBool::new(false);

struct Watch {
    running: Mutex<HashMap<u32, Instant>>,
    killed: Mutex<HashSet<u32>>,
}

fn watch() -> &'static Watch {
    static W: OnceLock<Watch> = OnceLock::new();
    W.get_or_init(|| {
        std::thread::spawn(|| loop {
            std::thread::sleep(Duration::from_millis(500));
            let w = watch();
            let now = Instant::now();
            let late: Vec<u32> = w
                .running
                .lock()
                .unwrap()
                .iter()
                .filter(|(_, t)| now.duration_since(**t) > TIMEOUT)
                .map(|(p, _)| *p)
                .collect();
            for pid in late {
                w.killed.lock().unwrap().insert(pid);
                unsafe {
                    libc::kill(pid as i32, libc::SIGKILL);
                }
            }
        });
        Watch {
            running: Mutex::new(HashMap::new()),
            killed: Mutex::new(HashSet::new()),
        }
    })
}

/// Run `sfs <args>` in `cwd`.
pub fn sfs<S: AsRef<str>>(ctx: &Ctx, args: &[S], input: Input<'_>, cwd: &Path) -> Run {
    run_bin(ctx, &ctx.sfs_bin, args, input, cwd, &[])
}

thread_local! {
    /// When set, the next spawned children of this thread are pinned to these CPUs (C12 uses it to
    /// force different interleavings of the BGZF worker threads).
    pub static PIN_CPUS: std::cell::RefCell<Option<Vec<usize>>> = const { std::cell::RefCell::new(None) };
}

pub fn run_bin<S: AsRef<str>>(ctx: &Ctx, bin: &Path, args: &[S], input: Input<'_>, cwd: &Path, env: &[(&str, &str)]) -> Run {
    ctx.subprocess_runs.fetch_add(1, Ordering::Relaxed);
    let mut cmd = Command::new(bin);
    cmd.args(args.iter().map(|s| s.as_ref()))
        .current_dir(cwd)
        .env("SFS_ALLOW_STDIN", "1")
        .env("RUST_BACKTRACE", "0")
        .env_remove("RUST_LOG")
        .stdout(Stdio::piped())
        .stderr(Stdio::piped());
    for (k, v) in env {
        cmd.env(k, v);
    }
    match &input {
        Input::Null => {
            cmd.stdin(Stdio::null());
        }
        Input::File(p) => {
            cmd.stdin(Stdio::from(std::fs::File::open(p).expect("open stdin file")));
        }
        Input::Pipe(_) => {
            cmd.stdin(Stdio::piped());
        }
    }
    let started = Instant::now();
    let mut child = cmd.spawn().unwrap_or_else(|e| panic!("cannot spawn {}: {e}", bin.display()));
    let pid = child.id();
    // Protect the sandbox: corrupt inputs can declare multi-gigabyte buffers (BGZF ISIZE, BCF record
    // lengths, npy header length). Cap the child's address space right after the spawn (prlimit on
    // the child keeps the fast posix_spawn path; the child cannot allocate much before it has read
    // its input). An allocation failure under this cap is reported separately
    // (`Run::allocation_failed`) and is not a property violation.
    if let Some(cpus) = PIN_CPUS.with(|p| p.borrow().clone()) {
        unsafe {
            let mut set: libc::cpu_set_t = std::mem::zeroed();
            for c in cpus {
                libc::CPU_SET(c, &mut set);
            }
            libc::sched_setaffinity(pid as libc::pid_t, std::mem::size_of::<libc::cpu_set_t>(), &set);
        }
    }
    if CAP_ADDRESS_SPACE.load(Ordering::Relaxed) {
        let lim = libc::rlimit {
            rlim_cur: ADDRESS_SPACE_LIMIT,
            rlim_max: ADDRESS_SPACE_LIMIT,
        };
        unsafe {
            libc::prlimit(pid as libc::pid_t, libc::RLIMIT_AS, &lim, std::ptr::null_mut());
        }
    }
    watch().running.lock().unwrap().insert(pid, Instant::now());
    let output = std::thread::scope(|scope| {
        if let Input::Pipe(bytes) = &input {
            let mut stdin = child.stdin.take().expect("child stdin");
            let bytes: &[u8] = bytes;
            scope.spawn(move || {
                let _ = stdin.write_all(bytes);
                drop(stdin);
            });
        }
        child.wait_with_output().expect("wait for child")
    });
    watch().running.lock().unwrap().remove(&pid);
    let timed_out = watch().killed.lock().unwrap().remove(&pid);
    if (timed_out || started.elapsed().as_secs() >= 5) && std::env::var("VERIF_DUMP_SLOW").is_ok() {
        let dump = ctx.verif_dir.join("work").join(format!("slowdump-{}-{}", std::process::id(), pid));
        let _ = std::fs::create_dir_all(&dump);
        if let Ok(rd) = std::fs::read_dir(cwd) {
            for e in rd.flatten() {
                let _ = std::fs::copy(e.path(), dump.join(e.file_name()));
            }
        }
        let argv: Vec<&str> = args.iter().map(|s| s.as_ref()).collect();
        let _ = std::fs::write(dump.join("ARGV.txt"), format!("{argv:?}\nelapsed {:?} timed_out {timed_out}\nstdin {}", started.elapsed(), match &input { Input::Null => "null".to_string(), Input::File(p) => p.display().to_string(), Input::Pipe(b) => format!("pipe of {} bytes", b.len()) }));
        eprintln!("SLOW RUN dumped to {}", dump.display());
    }
    if timed_out {
        ctx.note_inconclusive(format!("subprocess timed out after {TIMEOUT:?}"));
    }
    Run {
        code: output.status.code(),
        signal: output.status.signal(),
        stdout: output.stdout,
        stderr: output.stderr,
        timed_out,
        elapsed_ms: started.elapsed().as_millis() as u64,
    }
}

/// Parsed text spectrum as printed by sfs.
#[derive(Debug, Clone, PartialEq)]
pub struct TextSpectrum {
    pub shape: Vec<usize>,
    pub tokens: Vec<String>,
    pub values: Vec<f64>,
}

/// Independent parser of the text format: `#SHAPE=<a/b/..>` line, then one line of values.
pub fn parse_text_spectrum(text: &str) -> Result<TextSpectrum, String> {
    let mut lines = text.split('\n');
    let header = lines.next().ok_or("empty output")?;
    let inner = header
        .strip_prefix("#SHAPE=<")
        .and_then(|r| r.strip_suffix('>'))
        .ok_or_else(|| format!("bad header line {header:?}"))?;
    let shape = inner
        .split('/')
        .map(|t| t.parse::<usize>().map_err(|e| format!("bad shape token {t:?}: {e}")))
        .collect::<Result<Vec<_>, _>>()?;
    let values_line = lines.next().ok_or("missing values line")?;
    let rest: Vec<&str> = lines.collect();
    if !(rest.is_empty() || (rest.len() == 1 && rest[0].is_empty())) {
        return Err(format!("unexpected trailing lines: {rest:?}"));
    }
    let tokens: Vec<String> = if values_line.is_empty() {
        vec![]
    } else {
        values_line.split(' ').map(|s| s.to_string()).collect()
    };
    let mut values = Vec::with_capacity(tokens.len());
    for t in &tokens {
        values.push(t.parse::<f64>().map_err(|e| format!("bad value token {t:?}: {e}"))?);
    }
    let expect: usize = shape.iter().product();
    if values.len() != expect {
        return Err(format!("shape {shape:?} declares {expect} values, found {}", values.len()));
    }
    Ok(TextSpectrum { shape, tokens, values })
}

pub fn expect_spectrum(run: &Run, what: &str) -> Result<TextSpectrum, Failure> {
    if run.timed_out {
        return Err(Failure::new(format!("{what}: timed out")));
    }
    if !run.ok() {
        return Err(Failure::new(format!("{what}: expected success, got {}", run.describe())));
    }
    parse_text_spectrum(&run.stdout_str()).map_err(|e| Failure::new(format!("{what}: stdout is not a text spectrum ({e}): {}", run.describe())))
}
