//! Shape enumeration, row-major odometer and shape/value strategies.

use proptest::prelude::*;

/// Every shape with 1..=max_axes axes and lengths min_len..=max_len.
pub fn all_shapes(max_axes: usize, min_len: usize, max_len: usize) -> Vec<Vec<usize>> {
    let mut out = Vec::new();
    for d in 1..=max_axes {
        for idx in odometer(&vec![max_len - min_len + 1; d]) {
            out.push(idx.into_iter().map(|i| i + min_len).collect());
        }
    }
    out
}

/// All multi-indices of a shape in row-major order (the harness's own odometer).
pub fn odometer(shape: &[usize]) -> Vec<Vec<usize>> {
    let total: usize = shape.iter().product();
    let mut out = Vec::with_capacity(total);
    if total == 0 {
        return out;
    }
    let mut cur = vec![0usize; shape.len()];
    loop {
        out.push(cur.clone());
        let mut axis = shape.len();
        loop {
            if axis == 0 {
                return out;
            }
            axis -= 1;
            cur[axis] += 1;
            if cur[axis] < shape[axis] {
                break;
            }
            cur[axis] = 0;
        }
    }
}

/// Row-major flat position of an index (independent of sfs's strides).
pub fn flat(shape: &[usize], index: &[usize]) -> usize {
    let mut f = 0usize;
    for (n, i) in shape.iter().zip(index) {
        f = f * n + i;
    }
    f
}

pub fn elements(shape: &[usize]) -> usize {
    shape.iter().product()
}

/// Strategy: shape with `axes` range and `len` range per axis, product bounded.
pub fn shape_strategy(min_axes: usize, max_axes: usize, min_len: usize, max_len: usize, max_elems: usize) -> impl Strategy<Value = Vec<usize>> {
    prop::collection::vec(min_len..=max_len, min_axes..=max_axes).prop_map(move |mut s| {
        // shrink lengths (largest first) until the product fits
        while s.iter().product::<usize>() > max_elems {
            let (i, _) = s.iter().enumerate().max_by_key(|(_, &v)| v).unwrap();
            if s[i] > min_len.max(1) {
                s[i] -= 1;
            } else {
                break;
            }
        }
        s
    })
}

#[cfg(test)]
mod tests {
    use super::*;
    #[test]
    fn counts() {
        assert_eq!(all_shapes(4, 1, 4).len(), 4 + 16 + 64 + 256);
        assert_eq!(all_shapes(5, 1, 4).len(), 1364);
        assert_eq!(all_shapes(2, 2, 3), vec![vec![2], vec![3], vec![2, 2], vec![2, 3], vec![3, 2], vec![3, 3]]);
        assert_eq!(odometer(&[2, 3]).len(), 6);
        assert_eq!(odometer(&[2, 3])[4], vec![1, 1]);
        assert_eq!(flat(&[2, 3], &[1, 1]), 4);
    }
}
