pub mod shapes;
pub mod values;
