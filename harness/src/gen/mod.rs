pub mod shapes;
