pub mod bcf;
pub mod bgzf;
pub mod callset;
pub mod shapes;
pub mod values;
