//! BGZF written by the harness: gzip members with the `BC` extra field, raw deflate via flate2
//! (level 0 = stored blocks), CRC32, ISIZE; the block layout is an explicit, generated parameter.

use flate2::{Compress, Compression, FlushCompress};
use serde::{Deserialize, Serialize};

pub const EOF_MARKER: [u8; 28] = [
    0x1f, 0x8b, 0x08, 0x04, 0x00, 0x00, 0x00, 0x00, 0x00, 0xff, 0x06, 0x00, 0x42, 0x43, 0x02, 0x00, 0x1b, 0x00, 0x03, 0x00, 0x00, 0x00, 0x00, 0x00, 0x00, 0x00, 0x00, 0x00,
];

pub const MAX_PAYLOAD: usize = 65280;

fn deflate_raw(data: &[u8], level: u32) -> Vec<u8> {
    let mut c = Compress::new(Compression::new(level), false);
    let mut out = Vec::with_capacity(data.len() + data.len() / 8 + 64);
    loop {
        let before_in = c.total_in() as usize;
        let status = c.compress_vec(&data[before_in..], &mut out, FlushCompress::Finish).expect("deflate");
        match status {
            flate2::Status::StreamEnd => break,
            _ => out.reserve(out.capacity().max(1024)),
        }
    }
    out
}

/// One BGZF block holding `data` (<= 65280 bytes).
pub fn block(data: &[u8], level: u32) -> Vec<u8> {
    assert!(data.len() <= MAX_PAYLOAD);
    let mut cdata = deflate_raw(data, level);
    if cdata.len() + 26 > 65536 {
        cdata = deflate_raw(data, 0);
    }
    let bsize = cdata.len() + 25; // total block size - 1
    assert!(bsize <= 65535);
    // gzip header fields BGZF does not fix: htslib writes MTIME = 0, XFL = 0, OS = 0xff (unknown);
    // other writers record a time stamp, the compression hint and their operating system. Which of
    // them a block gets is decided by its content.
    let (mtime, xfl, os): (u32, u8, u8) = match (data.len() + level as usize) % 6 {
        4 => (0x5f5e_1000, 0x00, 0x03),
        5 => (0, if level >= 9 { 0x02 } else { 0x04 }, 0x03),
        _ => (0, 0x00, 0xff),
    };
    let mut out = vec![0x1f, 0x8b, 0x08, 0x04];
    out.extend(mtime.to_le_bytes());
    out.extend([xfl, os, 0x06, 0x00, b'B', b'C', 0x02, 0x00]);
    out.extend((bsize as u16).to_le_bytes());
    out.extend(cdata);
    let mut h = crc32fast::Hasher::new();
    h.update(data);
    out.extend(h.finalize().to_le_bytes());
    out.extend((data.len() as u32).to_le_bytes());
    out
}

#[derive(Clone, Debug, PartialEq, Serialize, Deserialize)]
pub enum Cuts {
    /// everything in as few blocks as possible (64 KiB - 256 payloads)
    Max,
    /// a new block after every line feed
    LinePerBlock,
    /// successive payload sizes drawn from this list (cycled), each 1..=65280
    Sizes(Vec<u32>),
}

#[derive(Clone, Debug, PartialEq, Serialize, Deserialize)]
pub struct Layout {
    pub cuts: Cuts,
    /// deflate level 0 (stored), 1, 6, 9
    pub level: u32,
    pub empty_first: bool,
    /// insert an empty block after every k-th data block (0 = never)
    pub empty_every: usize,
    pub empty_last: bool,
    pub eof_marker: bool,
    /// additional empty blocks in front of the data (several hundred of them exceed a reader's
    /// first 8 KiB buffer before any payload byte appears)
    #[serde(default)]
    pub leading_empty_blocks: u16,
}

impl Layout {
    pub fn plain() -> Self {
        Layout {
            cuts: Cuts::Max,
            level: 6,
            empty_first: false,
            empty_every: 0,
            empty_last: false,
            eof_marker: true,
            leading_empty_blocks: 0,
        }
    }
}

/// Cut points (payload boundaries) for `data` under a layout.
pub fn boundaries(data: &[u8], cuts: &Cuts) -> Vec<usize> {
    let mut b = vec![0usize];
    match cuts {
        Cuts::Max => {
            let mut p = 0;
            while p < data.len() {
                p = (p + MAX_PAYLOAD).min(data.len());
                b.push(p);
            }
        }
        Cuts::LinePerBlock => {
            let mut start = 0;
            for (i, &c) in data.iter().enumerate() {
                if (c == b'\n' && b.len() <= 1500) || i + 1 - start >= MAX_PAYLOAD {
                    b.push(i + 1);
                    start = i + 1;
                }
            }
            if *b.last().unwrap() != data.len() {
                b.push(data.len());
            }
        }
        Cuts::Sizes(sizes) => {
            let mut p = 0;
            let mut k = 0;
            while p < data.len() {
                // after 1500 small blocks the rest goes into maximal blocks (keeps huge inputs tractable)
                let s = if sizes.is_empty() || k >= 1500 { MAX_PAYLOAD } else { (sizes[k % sizes.len()] as usize).clamp(1, MAX_PAYLOAD) };
                k += 1;
                p = (p + s).min(data.len());
                b.push(p);
            }
        }
    }
    b
}

pub fn compress(data: &[u8], layout: &Layout) -> (Vec<u8>, usize) {
    let mut out = Vec::new();
    let mut blocks = 0;
    if layout.empty_first {
        out.extend(block(&[], layout.level));
        blocks += 1;
    }
    for _ in 0..layout.leading_empty_blocks {
        out.extend(block(&[], layout.level));
        blocks += 1;
    }
    let b = boundaries(data, &layout.cuts);
    for (i, w) in b.windows(2).enumerate() {
        out.extend(block(&data[w[0]..w[1]], layout.level));
        blocks += 1;
        if layout.empty_every > 0 && (i + 1) % layout.empty_every == 0 && w[1] != data.len() {
            out.extend(block(&[], layout.level));
            blocks += 1;
        }
    }
    if layout.empty_last {
        out.extend(block(&[], layout.level));
        blocks += 1;
    }
    if layout.eof_marker {
        out.extend(EOF_MARKER);
        blocks += 1;
    }
    (out, blocks)
}

#[cfg(test)]
mod tests {
    use super::*;
    use std::io::Read;
    #[test]
    fn readable_by_flate2() {
        let data: Vec<u8> = (0..200_000u32).map(|i| (i % 251) as u8).collect();
        for layout in [
            Layout::plain(),
            Layout { cuts: Cuts::Sizes(vec![1, 7, 65280, 300]), level: 0, empty_first: true, empty_every: 2, empty_last: true, eof_marker: false, leading_empty_blocks: 300 },
        ] {
            let (bytes, _) = compress(&data, &layout);
            let mut d = flate2::read::MultiGzDecoder::new(&bytes[..]);
            let mut back = Vec::new();
            d.read_to_end(&mut back).unwrap();
            assert_eq!(back, data);
        }
        assert_eq!(block(&[], 6), EOF_MARKER.to_vec());
    }
}

// ---------------------------------------------------------------------------------------------
// strategies

use proptest::prelude::*;

pub fn layout_strategy() -> impl Strategy<Value = Layout> {
    (
        prop_oneof![
            3 => Just(Cuts::Max),
            3 => Just(Cuts::LinePerBlock),
            3 => prop::collection::vec(prop_oneof![3 => 1u32..=40, 3 => 41u32..=2000, 1 => 2001u32..=65280], 1..=6).prop_map(Cuts::Sizes),
            1 => Just(Cuts::Sizes(vec![1])),
            1 => Just(Cuts::Sizes(vec![65280])),
        ],
        prop_oneof![Just(0u32), Just(1), Just(6), Just(9)],
        prop::bool::weighted(0.2),
        prop_oneof![3 => Just(0usize), 1 => 1usize..=3],
        prop::bool::weighted(0.2),
        prop::bool::weighted(0.7),
        prop_oneof![12 => Just(0u16), 2 => 1u16..=3, 1 => 290u16..=420],
    )
        .prop_map(|(cuts, level, empty_first, empty_every, empty_last, eof_marker, leading_empty_blocks)| Layout {
            cuts,
            level,
            empty_first,
            empty_every,
            empty_last,
            eof_marker,
            leading_empty_blocks,
        })
}
