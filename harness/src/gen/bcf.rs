//! BCF 2.2 written by the harness's own encoder (typed values, int8 GT vectors with
//! end-of-vector padding for mixed ploidy, explicit IDX attributes in the header).

use super::callset::{CallSet, Gt, Record};

// dictionary indices (IDX attributes in the header make them explicit)
const IDX_PASS: i32 = 0;
const IDX_Q10: i32 = 1;
const IDX_DP: i32 = 2;
const IDX_AF: i32 = 3;
const IDX_DB: i32 = 4;
const IDX_GT: i32 = 5;
const IDX_GQ: i32 = 6;
/// number of padding INFO definitions in a "wide" dictionary
const WIDE_PAD: i32 = 135;

/// About a quarter of the call sets (decided by the data itself) get a *wide* dictionary: 135 unused
/// INFO definitions in front of the FORMAT keys, as annotated call sets have, so that GT and GQ
/// sit at dictionary indices above 127 and their keys are written as int16 (htslib picks the
/// smallest integer type that fits).
pub fn wide_dictionary(cs: &CallSet) -> bool {
    !implicit_dictionary(cs) && cs.samples.iter().map(|s| s.len()).sum::<usize>() % 4 == 0
}

/// About a third of the call sets (decided by the data itself) get a header *without* `IDX=`
/// attributes: the dictionary is then defined by order of appearance of the FILTER / INFO / FORMAT
/// identifiers (PASS first), and the contig dictionary by the order of the contig lines (BCF 2.2,
/// section 6.2.1). The header lines of this encoder appear in exactly the order of its constants.
pub fn implicit_dictionary(cs: &CallSet) -> bool {
    cs.records.len() % 3 == 1
}

fn idx_attr(cs: &CallSet, idx: impl std::fmt::Display) -> String {
    if implicit_dictionary(cs) {
        String::new()
    } else {
        format!(",IDX={idx}")
    }
}

pub fn gt_idx(cs: &CallSet) -> i32 {
    if wide_dictionary(cs) {
        IDX_GT + 2 + WIDE_PAD
    } else {
        IDX_GT
    }
}

/// PL, FT, AB follow GQ in the dictionary
pub fn extra_idx(cs: &CallSet, k: i32) -> i32 {
    gq_idx(cs) + 1 + k
}

fn gq_idx(cs: &CallSet) -> i32 {
    if wide_dictionary(cs) {
        IDX_GQ + 2 + WIDE_PAD
    } else {
        IDX_GQ
    }
}

/// Dictionary index of the i-th contig line. For about half of the call sets (decided by the data
/// itself) the indices run against the header line order, as htslib allows with explicit IDX.
pub fn contig_idx(cs: &CallSet, i: usize) -> usize {
    let n = cs.contigs.len();
    if !implicit_dictionary(cs) && n > 1 && cs.contigs[0].len() % 2 == 1 {
        n - 1 - i
    } else {
        i
    }
}

pub fn header_text(cs: &CallSet) -> String {
    let mut h = String::new();
    h.push_str(&format!("##fileformat=VCFv{}\n", cs.vcf_version()));
    h.push_str(&format!("##FILTER=<ID=PASS,Description=\"All filters passed\"{}>\n", idx_attr(cs, IDX_PASS)));
    h.push_str(&format!("##FILTER=<ID=q10,Description=\"Quality below 10\"{}>\n", idx_attr(cs, IDX_Q10)));
    for (i, c) in cs.contigs.iter().enumerate() {
        h.push_str(&format!("##contig=<ID={c},length=100000000{}>\n", idx_attr(cs, contig_idx(cs, i))));
    }
    h.push_str(&format!("##INFO=<ID=DP,Number=1,Type=Integer,Description=\"Total depth\"{}>\n", idx_attr(cs, IDX_DP)));
    h.push_str(&format!("##INFO=<ID=AF,Number=A,Type=Float,Description=\"Allele frequency\"{}>\n", idx_attr(cs, IDX_AF)));
    h.push_str(&format!("##INFO=<ID=DB,Number=0,Type=Flag,Description=\"dbSNP membership\"{}>\n", idx_attr(cs, IDX_DB)));
    h.push_str("##ALT=<ID=DEL,Description=\"Deletion\">\n");
    if wide_dictionary(cs) {
        for k in 0..WIDE_PAD {
            h.push_str(&format!("##INFO=<ID=XI{k:03},Number=1,Type=Integer,Description=\"unused annotation {k}\",IDX={}>\n", IDX_GQ + 1 + k));
        }
    }
    h.push_str(&format!("##FORMAT=<ID=GT,Number=1,Type=String,Description=\"Genotype\"{}>\n", idx_attr(cs, gt_idx(cs))));
    h.push_str(&format!("##FORMAT=<ID=DP,Number=1,Type=Integer,Description=\"Read depth\"{}>\n", idx_attr(cs, IDX_DP)));
    h.push_str(&format!("##FORMAT=<ID=GQ,Number=1,Type=Integer,Description=\"Genotype quality\"{}>\n", idx_attr(cs, gq_idx(cs))));
    h.push_str(&format!("##FORMAT=<ID=XL,Number=.,Type=Integer,Description=\"Phred-scaled likelihoods\"{}>\n", idx_attr(cs, extra_idx(cs, 0))));
    h.push_str(&format!("##FORMAT=<ID=XF,Number=1,Type=String,Description=\"Sample filter\"{}>\n", idx_attr(cs, extra_idx(cs, 1))));
    h.push_str(&format!("##FORMAT=<ID=XB,Number=1,Type=Float,Description=\"Allele balance\"{}>\n", idx_attr(cs, extra_idx(cs, 2))));
    h.push_str("#CHROM\tPOS\tID\tREF\tALT\tQUAL\tFILTER\tINFO\tFORMAT");
    for s in &cs.samples {
        h.push('\t');
        h.push_str(s);
    }
    h.push('\n');
    h
}

fn typed_descriptor(len: usize, ty: u8, out: &mut Vec<u8>) {
    if len < 15 {
        out.push(((len as u8) << 4) | ty);
    } else {
        out.push(0xf0 | ty);
        typed_int(len as i32, out);
    }
}

pub fn typed_int(v: i32, out: &mut Vec<u8>) {
    if (-120..=127).contains(&v) {
        out.push(0x11);
        out.push(v as i8 as u8);
    } else if (-32760..=32767).contains(&v) {
        out.push(0x12);
        out.extend((v as i16).to_le_bytes());
    } else {
        out.push(0x13);
        out.extend(v.to_le_bytes());
    }
}

fn typed_string(s: &str, out: &mut Vec<u8>) {
    typed_descriptor(s.len(), 7, out);
    out.extend(s.as_bytes());
}

fn typed_int_vec(v: &[i32], out: &mut Vec<u8>) {
    if v.is_empty() {
        out.push(0x00);
        return;
    }
    if v.iter().all(|x| (-120..=127).contains(x)) {
        typed_descriptor(v.len(), 1, out);
        out.extend(v.iter().map(|x| *x as i8 as u8));
    } else if v.iter().all(|x| (-32760..=32767).contains(x)) {
        typed_descriptor(v.len(), 2, out);
        for x in v {
            out.extend((*x as i16).to_le_bytes());
        }
    } else {
        typed_descriptor(v.len(), 3, out);
        for x in v {
            out.extend(x.to_le_bytes());
        }
    }
}

/// int8 encoding of one genotype, padded with end-of-vector markers to `width` alleles.
pub fn encode_gt(gt: &Gt, width: usize, out: &mut Vec<u8>) {
    for (i, a) in gt.alleles.iter().enumerate() {
        let phased = if i == 0 { 0 } else { gt.phased[i - 1] as u8 };
        let v = match a {
            None => 0,
            Some(a) => {
                assert!(*a <= 62, "allele index {a} does not fit an int8 GT vector");
                ((*a as u8) + 1) << 1
            }
        };
        out.push(v | phased);
    }
    for _ in gt.alleles.len()..width {
        out.push(0x81);
    }
}

pub fn record_bytes(cs: &CallSet, r: &Record) -> Vec<u8> {
    record_bytes_with_gt_idx(cs, r, gt_idx(cs))
}

/// `gt_idx`: dictionary index of the GT key (the repository's fixtures use 1).
pub fn record_bytes_with_gt_idx(cs: &CallSet, r: &Record, gt_idx: i32) -> Vec<u8> {
    let n_sample = cs.samples.len();
    let alts = r.alts();
    let n_allele = 1 + alts.len();
    let mut info: Vec<Vec<u8>> = Vec::new();
    if r.info & 1 != 0 {
        let mut e = Vec::new();
        typed_int(IDX_DP, &mut e);
        typed_int_vec(&[(10 + r.pos % 50) as i32], &mut e);
        info.push(e);
    }
    if r.info & 2 != 0 && r.n_alt > 0 {
        let mut e = Vec::new();
        typed_int(IDX_AF, &mut e);
        typed_descriptor(r.n_alt as usize, 5, &mut e);
        for i in 0..r.n_alt {
            let v: f32 = format!("0.{}5", i + 1).parse().unwrap();
            e.extend(v.to_le_bytes());
        }
        info.push(e);
    }
    if r.info & 4 != 0 {
        let mut e = Vec::new();
        typed_int(IDX_DB, &mut e);
        e.push(0x00);
        info.push(e);
    }
    let mut n_fmt = 0u32;
    let mut indiv = Vec::new();
    if r.has_gt {
        n_fmt += 1;
        typed_int(gt_idx, &mut indiv);
        let width = r.gts.iter().map(|g| g.alleles.len()).max().unwrap_or(2);
        typed_descriptor(width, 1, &mut indiv);
        for g in &r.gts {
            encode_gt(g, width, &mut indiv);
        }
    }
    if r.fmt_dp || !r.has_gt {
        n_fmt += 1;
        typed_int(IDX_DP, &mut indiv);
        typed_descriptor(1, 1, &mut indiv);
        for i in 0..n_sample {
            indiv.push((5 + (i as u64 + r.pos) % 30) as u8);
        }
    }
    if r.fmt_gq {
        n_fmt += 1;
        typed_int(gq_idx(cs), &mut indiv);
        typed_descriptor(1, 1, &mut indiv);
        for i in 0..n_sample {
            indiv.push((20 + (i as u64 * 7 + r.pos) % 70) as u8);
        }
    }

    if r.info & 8 != 0 {
        // three integers per sample; the third exceeds 127, so the whole field is an int16 vector
        n_fmt += 1;
        typed_int(extra_idx(cs, 0), &mut indiv);
        typed_descriptor(3, 2, &mut indiv);
        for i in 0..n_sample {
            for v in r.pl_of(i) {
                indiv.extend((v as i16).to_le_bytes());
            }
        }
    }
    if r.info & 16 != 0 {
        // character vectors, NUL-padded to the longest value
        n_fmt += 1;
        typed_int(extra_idx(cs, 1), &mut indiv);
        let width = (0..n_sample).map(|i| r.ft_of(i).len()).max().unwrap_or(1);
        typed_descriptor(width, 7, &mut indiv);
        for i in 0..n_sample {
            let v = r.ft_of(i).as_bytes();
            indiv.extend(v);
            indiv.extend(std::iter::repeat(0u8).take(width - v.len()));
        }
    }
    if r.info & 32 != 0 {
        n_fmt += 1;
        typed_int(extra_idx(cs, 2), &mut indiv);
        typed_descriptor(1, 5, &mut indiv);
        for i in 0..n_sample {
            indiv.extend(r.ab_of(i).to_le_bytes());
        }
    }

    let mut shared = Vec::new();
    shared.extend((contig_idx(cs, r.contig) as i32).to_le_bytes());
    shared.extend(((r.pos - 1) as i32).to_le_bytes());
    shared.extend((1 + r.ref_pad as i32).to_le_bytes()); // rlen
    match r.qual {
        Some(q) => shared.extend((q as f32).to_le_bytes()),
        None => shared.extend(0x7f80_0001u32.to_le_bytes()),
    }
    shared.extend((((n_allele as u32) << 16) | info.len() as u32).to_le_bytes());
    shared.extend(((n_fmt << 24) | n_sample as u32).to_le_bytes());
    if r.id {
        typed_string(&format!("rs{}", r.pos), &mut shared);
    } else {
        shared.push(0x07);
    }
    typed_string(&r.reference(), &mut shared);
    for a in &alts {
        typed_string(a, &mut shared);
    }
    match r.filter {
        1 => typed_int_vec(&[IDX_PASS], &mut shared),
        2 => typed_int_vec(&[IDX_Q10], &mut shared),
        _ => shared.push(0x00),
    }
    for e in info {
        shared.extend(e);
    }

    let mut out = Vec::new();
    out.extend((shared.len() as u32).to_le_bytes());
    out.extend((indiv.len() as u32).to_le_bytes());
    out.extend(shared);
    out.extend(indiv);
    out
}

/// Uncompressed BCF stream: magic, header, records. Also returns the record start offsets.
pub fn to_bcf(cs: &CallSet) -> (Vec<u8>, Vec<usize>) {
    let mut out = b"BCF\x02\x02".to_vec();
    let text = header_text(cs);
    out.extend(((text.len() + 1) as u32).to_le_bytes());
    out.extend(text.as_bytes());
    out.push(0);
    let mut offsets = Vec::new();
    for r in &cs.records {
        offsets.push(out.len());
        out.extend(record_bytes(cs, r));
    }
    (out, offsets)
}

#[cfg(test)]
mod tests {
    use super::*;
    use crate::gen::callset::*;
    use noodles_bcf as bcf;
    use noodles_vcf as vcf;

    fn sample_callset() -> CallSet {
        let gts = |v: &[&str]| v.iter().map(|s| Gt::parse(s)).collect::<Vec<_>>();
        let rec = |contig, pos, n_alt, g: Vec<Gt>| Record {
            contig,
            pos,
            n_alt,
            symbolic: false,
            id: pos % 2 == 0,
            qual: if pos % 3 == 0 { Some(30) } else { None },
            filter: (pos % 3) as u8,
            info: (pos % 8) as u8,
            fmt_dp: pos % 2 == 1,
            fmt_gq: pos % 5 == 0,
            ref_pad: 0,
            has_gt: pos != 7,
            force: 0,
            gts: g,
        };
        CallSet {
            contigs: vec!["ctgA7".into(), "ctgB8".into()],
            samples: vec!["s0".into(), "s1".into(), "s2".into()],
            records: vec![
                rec(0, 1, 1, gts(&["0/0", "0|1", "1/1"])),
                rec(0, 5, 2, gts(&["./.", "1/2", "0"])),
                rec(0, 7, 1, gts(&["0/0", "0/0", "0/0"])),
                rec(1, 10, 3, gts(&["0/1/1", "3|0", ".|1"])),
                rec(1, 300, 0, gts(&["0/0", "0/0", "./."])),
            ],
        }
    }

    /// The encoder's output must decode through noodles to the same genotypes the VCF text gives.
    #[test]
    fn bcf_decodes_like_vcf() {
        let cs = sample_callset();
        let (bytes, _) = to_bcf(&cs);
        let mut reader = bcf::Reader::from(&bytes[..]);
        let header = reader.read_header().unwrap();
        let maps = bcf::header::StringMaps::try_from(&header).unwrap();
        assert_eq!(header.sample_names().iter().cloned().collect::<Vec<_>>(), cs.samples);
        let vcf_text = cs.to_vcf();
        let mut vreader = vcf::Reader::new(vcf_text.as_bytes());
        let vheader = vreader.read_header().unwrap();
        let mut vrec = vcf::Record::default();
        let mut rec = bcf::lazy::Record::default();
        for r in &cs.records {
            assert!(reader.read_lazy_record(&mut rec).unwrap() > 0);
            assert!(vreader.read_record(&vheader, &mut vrec).unwrap() > 0);
            assert_eq!(usize::from(rec.position()), r.pos as usize);
            assert_eq!(maps.contigs().get_index(rec.chromosome_id()), Some(cs.contigs[r.contig].as_str()));
            let g = rec.genotypes().try_into_vcf_record_genotypes(&header, maps.strings()).unwrap();
            let from_bcf = g.genotypes().unwrap();
            let from_vcf = vrec.genotypes().genotypes().unwrap();
            if r.has_gt {
                for (si, (b, v)) in from_bcf.iter().zip(&from_vcf).enumerate() {
                    // the bare '.' is the one string where the two decoders legitimately differ
                    if r.gts[si].render() == "." {
                        continue;
                    }
                    let desc = |g: &vcf::record::genotypes::sample::value::Genotype| -> (Vec<Option<usize>>, Vec<String>) {
                        (g.iter().map(|a| a.position()).collect(), g.iter().skip(1).map(|a| format!("{:?}", a.phasing())).collect())
                    };
                    assert_eq!(b.as_ref().map(desc), v.as_ref().map(desc), "record at {} sample {si}", r.pos);
                    let want: Vec<Option<usize>> = r.gts[si].alleles.iter().map(|a| a.map(|x| x as usize)).collect();
                    assert_eq!(b.as_ref().map(|g| desc(g).0), Some(want));
                }
            } else {
                assert!(from_bcf.iter().all(|g| g.is_none()));
                assert!(from_vcf.iter().all(|g| g.is_none()));
            }
        }
        assert_eq!(reader.read_lazy_record(&mut rec).unwrap(), 0);
    }
}
