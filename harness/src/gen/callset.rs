//! Call-set model: a VCF/BCF as a *value* (contigs, samples, records, one genotype per sample
//! and record), its generators, and the VCF text renderer. BCF/BGZF renderers are in `bcf.rs`
//! and `bgzf.rs`.

use proptest::prelude::*;
use serde::{Deserialize, Serialize};

use crate::engine::pick_idx;

#[derive(Clone, Debug, PartialEq, Eq, Hash, Serialize, Deserialize)]
pub struct Gt {
    /// allele indices, None = '.'
    pub alleles: Vec<Option<u64>>,
    /// separators between consecutive alleles, true = '|' (phased)
    pub phased: Vec<bool>,
}

#[derive(Clone, Copy, Debug, PartialEq, Eq, Hash, Serialize, Deserialize)]
pub enum GtClass {
    /// complete biallelic diploid call carrying k ALT alleles
    Call(u8),
    Missing,
    Multiallelic,
    /// missing and an allele index >= 2 at once (either skip reason is acceptable)
    MissingAndMultiallelic,
    /// ploidy != 2
    NotDiploid,
}

impl Gt {
    pub fn diploid(a: Option<u8>, b: Option<u8>, phased: bool) -> Self {
        Gt {
            alleles: vec![a.map(u64::from), b.map(u64::from)],
            phased: vec![phased],
        }
    }

    pub fn parse(s: &str) -> Gt {
        let mut alleles = Vec::new();
        let mut phased = Vec::new();
        let mut cur = String::new();
        for c in s.chars() {
            if c == '/' || c == '|' {
                alleles.push(if cur == "." { None } else { Some(cur.parse().unwrap()) });
                phased.push(c == '|');
                cur.clear();
            } else {
                cur.push(c);
            }
        }
        alleles.push(if cur == "." { None } else { Some(cur.parse().unwrap()) });
        Gt { alleles, phased }
    }

    pub fn render(&self) -> String {
        let mut s = String::new();
        for (i, a) in self.alleles.iter().enumerate() {
            if i > 0 {
                s.push(if self.phased[i - 1] { '|' } else { '/' });
            }
            match a {
                None => s.push('.'),
                Some(v) => s.push_str(&v.to_string()),
            }
        }
        s
    }

    /// Classification per the statement of C08.
    pub fn class(&self) -> GtClass {
        // a lone `.` is VCF's spelling of a wholly missing genotype (no ploidy is implied)
        if self.alleles.len() == 1 && self.alleles[0].is_none() {
            return GtClass::Missing;
        }
        if self.alleles.len() != 2 {
            return GtClass::NotDiploid;
        }
        let missing = self.alleles.iter().any(|a| a.is_none());
        let multi = self.alleles.iter().any(|a| matches!(a, Some(v) if *v >= 2));
        match (missing, multi) {
            (true, true) => GtClass::MissingAndMultiallelic,
            (true, false) => GtClass::Missing,
            (false, true) => GtClass::Multiallelic,
            (false, false) => GtClass::Call(self.alleles.iter().map(|a| a.unwrap() as u8).sum()),
        }
    }

    pub fn is_call(&self) -> bool {
        matches!(self.class(), GtClass::Call(_))
    }
    pub fn is_skip(&self) -> bool {
        matches!(self.class(), GtClass::Missing | GtClass::Multiallelic | GtClass::MissingAndMultiallelic)
    }
    pub fn max_allele(&self) -> u64 {
        self.alleles.iter().flatten().copied().max().unwrap_or(0)
    }
}

#[derive(Clone, Debug, PartialEq, Serialize, Deserialize)]
pub struct Record {
    pub contig: usize,
    pub pos: u64,
    /// number of ALT alleles (0 = monomorphic '.')
    pub n_alt: u8,
    /// first ALT is symbolic (<DEL>) instead of a base
    pub symbolic: bool,
    pub id: bool,
    pub qual: Option<u16>,
    /// 0 = '.', 1 = PASS, 2 = q10
    pub filter: u8,
    /// bit 0: INFO DP=<int>, bit 1: INFO AF=<float per ALT>, bit 2: INFO DB flag;
    /// bit 3: FORMAT PL (three integers, the third above 127), bit 4: FORMAT FT (string),
    /// bit 5: FORMAT AB (float)
    pub info: u8,
    pub fmt_dp: bool,
    pub fmt_gq: bool,
    /// extra REF bases beyond the first (long reference alleles: long lines, rlen > 1 in BCF)
    #[serde(default)]
    pub ref_pad: u16,
    /// false: the FORMAT column has no GT key at all (every sample is then missing)
    pub has_gt: bool,
    /// draw used by `force_record_classes` (0 = leave the record as generated)
    #[serde(default)]
    pub force: u8,
    pub gts: Vec<Gt>,
}

#[derive(Clone, Debug, PartialEq, Serialize, Deserialize)]
pub struct CallSet {
    pub contigs: Vec<String>,
    pub samples: Vec<String>,
    pub records: Vec<Record>,
}

const BASES: [&str; 3] = ["C", "G", "T"];

impl Record {
    pub fn alts(&self) -> Vec<String> {
        (0..self.n_alt as usize)
            .map(|i| if i == 0 && self.symbolic { "<DEL>".to_string() } else { BASES[i % 3].repeat(1 + i / 3) })
            .collect()
    }

    pub fn reference(&self) -> String {
        let mut r = String::with_capacity(1 + self.ref_pad as usize);
        r.push('A');
        for i in 0..self.ref_pad as usize {
            r.push(['C', 'G', 'T', 'A'][i % 4]);
        }
        r
    }

    /// FORMAT PL of sample i: three integers, the last one beyond the int8 range
    pub fn pl_of(&self, i: usize) -> [i32; 3] {
        let b = ((i as u64 * 13 + self.pos) % 90) as i32;
        [0, b, 130 + 3 * b]
    }

    /// FORMAT FT of sample i
    pub fn ft_of(&self, i: usize) -> &'static str {
        ["PASS", "lowQ", "q10;lowQ", "PASS"][(i + self.pos as usize) % 4]
    }

    /// FORMAT AB of sample i (exactly representable as f32)
    pub fn ab_of(&self, i: usize) -> f32 {
        [0.25f32, 0.5, 0.75, 0.125][(i * 3 + self.pos as usize) % 4]
    }

    /// Effective genotype of a sample (all-missing when the record has no GT key).
    pub fn gt_of(&self, sample: usize) -> Gt {
        if self.has_gt {
            self.gts[sample].clone()
        } else {
            Gt::diploid(None, None, false)
        }
    }

    pub fn vcf_line(&self, cs: &CallSet) -> String {
        let mut cols: Vec<String> = Vec::new();
        cols.push(cs.contigs[self.contig].clone());
        cols.push(self.pos.to_string());
        cols.push(if self.id { format!("rs{}", self.pos) } else { ".".into() });
        cols.push(self.reference());
        let alts = self.alts();
        cols.push(if alts.is_empty() { ".".into() } else { alts.join(",") });
        cols.push(self.qual.map(|q| q.to_string()).unwrap_or_else(|| ".".into()));
        cols.push(match self.filter {
            1 => "PASS".into(),
            2 => "q10".into(),
            _ => ".".into(),
        });
        let mut info = Vec::new();
        if self.info & 1 != 0 {
            info.push(format!("DP={}", 10 + self.pos % 50));
        }
        if self.info & 2 != 0 && self.n_alt > 0 {
            info.push(format!("AF={}", (0..self.n_alt).map(|i| format!("0.{}5", i + 1)).collect::<Vec<_>>().join(",")));
        }
        if self.info & 4 != 0 {
            info.push("DB".into());
        }
        cols.push(if info.is_empty() { ".".into() } else { info.join(";") });
        let mut keys = Vec::new();
        if self.has_gt {
            keys.push("GT");
        }
        if self.fmt_dp || !self.has_gt {
            keys.push("DP");
        }
        if self.fmt_gq {
            keys.push("GQ");
        }
        if self.info & 8 != 0 {
            keys.push("XL");
        }
        if self.info & 16 != 0 {
            keys.push("XF");
        }
        if self.info & 32 != 0 {
            keys.push("XB");
        }
        cols.push(keys.join(":"));
        for (i, gt) in self.gts.iter().enumerate() {
            let mut vals = Vec::new();
            if self.has_gt {
                vals.push(gt.render());
            }
            if self.fmt_dp || !self.has_gt {
                vals.push(format!("{}", 5 + (i as u64 + self.pos) % 30));
            }
            if self.fmt_gq {
                vals.push(format!("{}", 20 + (i as u64 * 7 + self.pos) % 70));
            }
            if self.info & 8 != 0 {
                let pl = self.pl_of(i);
                vals.push(format!("{},{},{}", pl[0], pl[1], pl[2]));
            }
            if self.info & 16 != 0 {
                vals.push(self.ft_of(i).to_string());
            }
            if self.info & 32 != 0 {
                vals.push(self.ab_of(i).to_string());
            }
            cols.push(vals.join(":"));
        }
        cols.join("\t")
    }
}

impl CallSet {
    /// File format version written into the header, decided by the data itself (the records are
    /// the same whatever the header says).
    pub fn vcf_version(&self) -> &'static str {
        ["4.3", "4.2", "4.1", "4.3", "4.4", "4.2"][(self.samples.len() + self.records.len()) % 6]
    }

    pub fn vcf_header(&self) -> String {
        let mut h = String::new();
        h.push_str(&format!("##fileformat=VCFv{}\n", self.vcf_version()));
        h.push_str("##FILTER=<ID=PASS,Description=\"All filters passed\">\n");
        h.push_str("##FILTER=<ID=q10,Description=\"Quality below 10\">\n");
        for c in &self.contigs {
            h.push_str(&format!("##contig=<ID={c},length=100000000>\n"));
        }
        h.push_str("##INFO=<ID=DP,Number=1,Type=Integer,Description=\"Total depth\">\n");
        h.push_str("##INFO=<ID=AF,Number=A,Type=Float,Description=\"Allele frequency\">\n");
        h.push_str("##INFO=<ID=DB,Number=0,Type=Flag,Description=\"dbSNP membership\">\n");
        h.push_str("##ALT=<ID=DEL,Description=\"Deletion\">\n");
        h.push_str("##FORMAT=<ID=GT,Number=1,Type=String,Description=\"Genotype\">\n");
        h.push_str("##FORMAT=<ID=DP,Number=1,Type=Integer,Description=\"Read depth\">\n");
        h.push_str("##FORMAT=<ID=GQ,Number=1,Type=Integer,Description=\"Genotype quality\">\n");
        h.push_str("##FORMAT=<ID=XL,Number=.,Type=Integer,Description=\"Phred-scaled likelihoods\">\n");
        h.push_str("##FORMAT=<ID=XF,Number=1,Type=String,Description=\"Sample filter\">\n");
        h.push_str("##FORMAT=<ID=XB,Number=1,Type=Float,Description=\"Allele balance\">\n");
        h.push_str("#CHROM\tPOS\tID\tREF\tALT\tQUAL\tFILTER\tINFO\tFORMAT");
        for s in &self.samples {
            h.push('\t');
            h.push_str(s);
        }
        h.push('\n');
        h
    }

    pub fn to_vcf(&self) -> String {
        let mut out = self.vcf_header();
        for r in &self.records {
            out.push_str(&r.vcf_line(self));
            out.push('\n');
        }
        out
    }

    /// The same call set with its sample columns permuted: new column j is old column perm[j].
    pub fn permute_samples(&self, perm: &[usize]) -> CallSet {
        CallSet {
            contigs: self.contigs.clone(),
            samples: perm.iter().map(|&i| self.samples[i].clone()).collect(),
            records: self
                .records
                .iter()
                .map(|r| Record {
                    gts: perm.iter().map(|&i| r.gts[i].clone()).collect(),
                    ..r.clone()
                })
                .collect(),
        }
    }

    pub fn with_records(&self, records: Vec<Record>) -> CallSet {
        CallSet {
            contigs: self.contigs.clone(),
            samples: self.samples.clone(),
            records,
        }
    }
}

// ---------------------------------------------------------------------------------------------
// strategies

pub const MAX_SAMPLES: usize = 12;

/// Genotype mix. `odd_ploidy` adds non-diploid genotypes (the caller decides where they may stay).
pub fn gt_strategy(odd_ploidy: bool, missing_weight: u32, multi_weight: u32) -> BoxedStrategy<Gt> {
    let complete = (0u8..=1, 0u8..=1, any::<bool>()).prop_map(|(a, b, p)| Gt::diploid(Some(a), Some(b), p));
    let missing = prop_oneof![
        3 => any::<bool>().prop_map(|p| Gt::diploid(None, None, p)),
        1 => (0u8..=1, any::<bool>()).prop_map(|(a, p)| Gt::diploid(None, Some(a), p)),
        1 => (0u8..=1, any::<bool>()).prop_map(|(a, p)| Gt::diploid(Some(a), None, p)),
        1 => Just(Gt { alleles: vec![None], phased: vec![] }),
    ];
    let multi = prop_oneof![
        2 => (0u8..=3, 2u8..=3, any::<bool>(), any::<bool>()).prop_map(|(a, b, swap, p)| if swap { Gt::diploid(Some(b), Some(a), p) } else { Gt::diploid(Some(a), Some(b), p) }),
        1 => (2u8..=3, any::<bool>()).prop_map(|(a, p)| Gt::diploid(Some(a), Some(a), p)),
        1 => (2u8..=3, any::<bool>(), any::<bool>()).prop_map(|(a, swap, p)| if swap { Gt::diploid(None, Some(a), p) } else { Gt::diploid(Some(a), None, p) }),
        // two-digit allele indices (clamped to the record's ALT count afterwards)
        2 => (0u8..=11, 4u8..=11, any::<bool>(), any::<bool>()).prop_map(|(a, b, swap, p)| if swap { Gt::diploid(Some(b), Some(a), p) } else { Gt::diploid(Some(a), Some(b), p) }),
    ];
    let odd = prop_oneof![
        2 => (0u8..=1).prop_map(|a| Gt { alleles: vec![Some(a as u64)], phased: vec![] }),
        2 => (prop::option::weighted(0.9, 0u8..=2), 0u8..=1, 0u8..=1, any::<bool>(), any::<bool>()).prop_map(|(a, b, c, p, q)| Gt { alleles: vec![a.map(u64::from), Some(b as u64), Some(c as u64)], phased: vec![p, q] }),
        1 => (0u8..=1, any::<bool>()).prop_map(|(a, p)| Gt { alleles: vec![Some(a as u64); 4], phased: vec![p; 3] }),
    ];
    let mut options: Vec<(u32, BoxedStrategy<Gt>)> = vec![(70, complete.boxed())];
    if missing_weight > 0 {
        options.push((missing_weight, missing.boxed()));
    }
    if multi_weight > 0 {
        options.push((multi_weight, multi.boxed()));
    }
    if odd_ploidy {
        options.push((8, odd.boxed()));
    }
    proptest::strategy::Union::new_weighted(options).boxed()
}

#[derive(Clone, Debug)]
pub struct GenParams {
    pub max_records: usize,
    pub max_samples: usize,
    pub odd_ploidy: bool,
    pub missing_weight: u32,
    pub multi_weight: u32,
    /// probability (in 1/256) that a record lacks the GT key altogether
    pub no_gt_per_256: u8,
}

impl Default for GenParams {
    fn default() -> Self {
        GenParams {
            max_records: 40,
            max_samples: MAX_SAMPLES,
            odd_ploidy: true,
            missing_weight: 12,
            multi_weight: 12,
            no_gt_per_256: 6,
        }
    }
}

fn record_strategy(p: &GenParams) -> impl Strategy<Value = Record> {
    (
        (any::<u16>(), prop_oneof![1 => Just(0u64), 19 => 1u64..=5000], prop_oneof![4 => Just(0u8), 24 => Just(1u8), 8 => Just(2u8), 4 => Just(3u8), 3 => 4u8..=11], prop::bool::weighted(0.1), any::<bool>(), prop_oneof![40 => Just(0u16), 4 => 1u16..=8, 1 => 100u16..=9000]),
        (prop::option::weighted(0.5, 0u16..=999), 0u8..=2, prop_oneof![3 => 0u8..=7, 1 => 8u8..=63], any::<bool>(), prop::bool::weighted(0.3), any::<u8>(), any::<u8>()),
        prop::collection::vec(gt_strategy(p.odd_ploidy, p.missing_weight, p.multi_weight), p.max_samples),
    )
        .prop_map({
            let no_gt = p.no_gt_per_256;
            move |((contig, pos_step, n_alt, symbolic, id, ref_pad), (qual, filter, info, fmt_dp, fmt_gq, gt_draw, force), gts)| Record {
                contig: contig as usize,
                pos: pos_step,
                n_alt,
                symbolic,
                id,
                qual,
                filter,
                info,
                fmt_dp,
                fmt_gq,
                ref_pad,
                has_gt: gt_draw >= no_gt,
                force,
                gts,
            }
        })
}

fn name_strategy() -> impl Strategy<Value = String> {
    prop_oneof![
        3 => "[A-Za-z][A-Za-z0-9_.]{0,6}",
        1 => Just("sample".to_string()),
        1 => Just("NA".to_string()),
        1 => "[0-9][0-9A-Za-z_.]{0,3}",
        // non-ASCII sample names (valid UTF-8 in VCF and BCF headers)
        1 => prop_oneof![Just("Ünï".to_string()), Just("样本".to_string()), Just("é".to_string()), Just("ß_Ω".to_string())],
    ]
}

/// Raw call set: `max_samples` genotype columns are always generated and then truncated to the
/// drawn number of samples, so that shrinking removes records and samples independently.
pub fn callset_strategy(p: GenParams) -> impl Strategy<Value = CallSet> {
    let max_samples = p.max_samples;
    (
        // contig name stems: plain identifiers, and what real references use (bare numbers, chrUn_..,
        // accession.version, HLA alleles with `*`, `:` and `-`)
        prop::collection::vec(
            prop_oneof![
                6 => "[A-Za-z][A-Za-z0-9_]{0,5}".prop_map(|b| format!("ctg{b}")),
                1 => Just(String::new()),
                1 => Just("chr".to_string()),
                1 => Just("chrUn_gl0002".to_string()),
                1 => Just("GL000192.".to_string()),
                1 => Just("HLA-A*01:01:".to_string()),
                // the customary names of sex chromosomes and organelles, taken as they are (`=` marks
                // an exact name): a contig's name says nothing about how its genotypes are to be read
                2 => prop::sample::select(vec!["=X", "=Y", "=MT", "=chrX", "=chrY", "=chrM", "=chrMT", "=W", "=Z", "=x", "=chrx", "=Mt", "=Pt", "=chrUn"]).prop_map(|s| s.to_string()),
            ],
            1..=3,
        ),
        1usize..=max_samples,
        prop::collection::vec(name_strategy(), max_samples),
        prop::collection::vec(record_strategy(&p), 0..=p.max_records),
    )
        .prop_map(|(contig_bases, n_samples, name_bases, records)| finish_callset(contig_bases, n_samples, name_bases, records))
}

pub fn finish_callset(contig_bases: Vec<String>, n_samples: usize, name_bases: Vec<String>, mut records: Vec<Record>) -> CallSet {
    // distinct, distinctive contig names
    let contigs: Vec<String> = contig_bases.iter().enumerate().map(|(i, b)| if let Some(exact) = b.strip_prefix('=') { if contig_bases[..i].contains(b) { format!("{exact}{}", 7 + i) } else { exact.to_string() } } else if b.starts_with("ctg") || b.is_empty() || b.ends_with(|c: char| !c.is_ascii_alphanumeric()) || b == "chr" || b.starts_with("chrUn") { format!("{b}{}", 7 + i) } else { format!("ctg{b}{}", 7 + i) }).collect();
    let samples: Vec<String> = name_bases.iter().take(n_samples).enumerate().map(|(i, b)| format!("{b}x{i}")).collect();
    // positions: increasing within a contig; contigs in blocks
    let n_contigs = contigs.len();
    for r in records.iter_mut() {
        r.contig = pick_idx(r.contig as u16, n_contigs);
        r.gts.truncate(n_samples);
        if r.n_alt == 0 {
            r.symbolic = false;
        }
        // allele indices never exceed the record's ALT count (monomorphic records carry only 0)
        let n_alt = r.n_alt;
        for g in r.gts.iter_mut() {
            for a in g.alleles.iter_mut().flatten() {
                if *a > n_alt as u64 {
                    *a = n_alt as u64;
                }
            }
        }
    }
    records.sort_by_key(|r| r.contig);
    let mut last_contig = usize::MAX;
    let mut pos = 0u64;
    for r in records.iter_mut() {
        if r.contig != last_contig {
            last_contig = r.contig;
            pos = 0;
        }
        // a step of 0 repeats the previous position (two records at one site are two records)
        pos = (pos + r.pos).max(1);
        r.pos = pos;
    }
    CallSet { contigs, samples, records }
}

/// Record-level classes forced with fixed probability so that they are never starved:
/// all selected samples complete; all selected samples missing; exactly one selected sample
/// missing; only an *unselected* sample incomplete. `selected[i]` tells whether sample i is listed.
pub fn force_record_classes(cs: &mut CallSet, selected: &[bool]) {
    let sel: Vec<usize> = (0..selected.len()).filter(|&i| selected[i]).collect();
    let unsel: Vec<usize> = (0..selected.len()).filter(|&i| !selected[i]).collect();
    for r in cs.records.iter_mut() {
        if !r.has_gt {
            continue;
        }
        let f = r.force;
        let complete = |g: &mut Gt, salt: u8| {
            if !g.is_call() {
                *g = Gt::diploid(Some(salt & 1), Some((salt >> 1) & 1), salt & 4 != 0);
            }
        };
        match f {
            0..=119 => {}
            120..=159 => {
                for (k, &i) in sel.iter().enumerate() {
                    complete(&mut r.gts[i], f.wrapping_add(k as u8 * 3));
                }
            }
            160..=179 => {
                for &i in &sel {
                    r.gts[i] = Gt::diploid(None, None, f & 1 == 1);
                }
            }
            180..=214 => {
                for (k, &i) in sel.iter().enumerate() {
                    complete(&mut r.gts[i], f.wrapping_add(k as u8 * 5));
                }
                if !sel.is_empty() {
                    let i = sel[(f as usize) % sel.len()];
                    r.gts[i] = if f & 1 == 0 { Gt::diploid(None, None, false) } else { Gt::diploid(Some(0), None, true) };
                }
            }
            _ => {
                for (k, &i) in sel.iter().enumerate() {
                    complete(&mut r.gts[i], f.wrapping_add(k as u8 * 7));
                }
                if !unsel.is_empty() {
                    let i = unsel[(f as usize) % unsel.len()];
                    r.gts[i] = match f % 3 {
                        0 => Gt::diploid(None, None, false),
                        1 if r.n_alt >= 2 => Gt::diploid(Some(1), Some(2), false),
                        _ => Gt::diploid(None, Some(0), false),
                    };
                }
            }
        }
    }
}

/// Replaces non-diploid genotypes of selected samples by complete diploid ones (for properties
/// whose domain is "diploid calls" in the selected samples).
pub fn make_selected_diploid(cs: &mut CallSet, selected: &[bool]) {
    for r in cs.records.iter_mut() {
        for (i, g) in r.gts.iter_mut().enumerate() {
            if selected[i] && g.class() == GtClass::NotDiploid {
                let a = g.alleles.first().copied().flatten().unwrap_or(0).min(1) as u8;
                *g = Gt::diploid(Some(a), Some(0), false);
            }
        }
    }
}

// ---------------------------------------------------------------------------------------------
// sample -> population map

#[derive(Clone, Debug, PartialEq, Serialize, Deserialize)]
pub struct MapSpec {
    /// listed samples in list order: (index into the call set's samples, label index or None = unnamed)
    pub entries: Vec<(usize, Option<usize>)>,
    pub labels: Vec<String>,
    /// give the list as a samples file instead of `-s`
    pub as_file: bool,
}

impl MapSpec {
    /// One unnamed population of all samples, given implicitly (no -s / -S at all).
    pub fn implicit_all(n_samples: usize) -> Self {
        MapSpec {
            entries: (0..n_samples).map(|i| (i, None)).collect(),
            labels: vec![],
            as_file: false,
        }
    }

    /// Population keys in first-appearance order (None = the unnamed population).
    pub fn populations(&self) -> Vec<Option<usize>> {
        let mut pops: Vec<Option<usize>> = Vec::new();
        for (_, l) in &self.entries {
            if !pops.contains(l) {
                pops.push(*l);
            }
        }
        pops
    }

    /// population id of every sample of the call set (None = not selected)
    pub fn assignment(&self, n_samples: usize) -> Vec<Option<usize>> {
        let pops = self.populations();
        let mut out = vec![None; n_samples];
        for (s, l) in &self.entries {
            out[*s] = Some(pops.iter().position(|p| p == l).unwrap());
        }
        out
    }

    pub fn pop_sizes(&self) -> Vec<usize> {
        let pops = self.populations();
        pops.iter().map(|p| self.entries.iter().filter(|(_, l)| l == p).count()).collect()
    }

    pub fn inline_arg(&self, cs: &CallSet) -> String {
        self.entries
            .iter()
            .map(|(s, l)| match l {
                Some(l) => format!("{}={}", cs.samples[*s], self.labels[*l]),
                None => cs.samples[*s].clone(),
            })
            .collect::<Vec<_>>()
            .join(",")
    }

    pub fn file_text(&self, cs: &CallSet) -> String {
        self.entries
            .iter()
            .map(|(s, l)| match l {
                Some(l) => format!("{}\t{}\n", cs.samples[*s], self.labels[*l]),
                None => format!("{}\n", cs.samples[*s]),
            })
            .collect()
    }
}

/// Raw draws for a map; resolved against the actual number of samples by `resolve_map`.
#[derive(Clone, Debug)]
pub struct MapDraw {
    pub order: Vec<usize>,
    pub take: u16,
    pub label_draws: Vec<u8>,
    pub n_labels: usize,
    pub unnamed_share: u8,
    pub labels: Vec<String>,
    pub as_file: bool,
    pub all_weight: u8,
}

pub fn map_draw_strategy(max_samples: usize) -> impl Strategy<Value = MapDraw> {
    (
        Just((0..max_samples).collect::<Vec<usize>>()).prop_shuffle(),
        any::<u16>(),
        prop::collection::vec(any::<u8>(), max_samples),
        0usize..=4,
        any::<u8>(),
        // labels may contain inner spaces (the samples file is tab-delimited, the inline list is split on ',' and '=')
        prop::collection::vec(prop_oneof![2 => "[A-Za-z0-9_.][A-Za-z0-9_.-]{0,5}".prop_map(|s| s).boxed(), 1 => "[A-Za-z0-9_.]{1,4}".prop_map(|s| format!("pop {s}")).boxed(), 1 => "[A-Za-z0-9_.]{1,3}".prop_map(|s| format!("{s} sp. nov")).boxed()], 4),
        any::<bool>(),
        any::<u8>(),
    )
        .prop_map(|(order, take, label_draws, n_labels, unnamed_share, labels, as_file, all_weight)| MapDraw {
            order,
            take,
            label_draws,
            n_labels,
            unnamed_share,
            labels,
            as_file,
            all_weight,
        })
}

pub fn resolve_map(d: &MapDraw, n_samples: usize) -> MapSpec {
    let order: Vec<usize> = d.order.iter().copied().filter(|&i| i < n_samples).collect();
    // number of listed samples: 1..=n, with extra weight on "all"
    let k = if d.all_weight < 60 { n_samples } else { 1 + pick_idx(d.take, n_samples) };
    let labels: Vec<String> = d.labels.iter().take(d.n_labels).enumerate().map(|(i, l)| format!("{l}{i}")).collect();
    // at most 4 populations in total: labels (<=4) plus possibly the unnamed one
    let allow_unnamed = labels.len() < 4;
    let entries = order
        .iter()
        .take(k)
        .enumerate()
        .map(|(pos, &s)| {
            let draw = d.label_draws[pos % d.label_draws.len()];
            let label = if labels.is_empty() || (allow_unnamed && draw < d.unnamed_share / 3) {
                None
            } else {
                Some(pick_idx((draw as u16) << 8, labels.len()))
            };
            (s, label)
        })
        .collect();
    MapSpec {
        entries,
        labels,
        as_file: d.as_file,
    }
}

#[cfg(test)]
mod tests {
    use super::*;
    #[test]
    fn gt_roundtrip() {
        for s in ["0/1", "1|0", "./.", ".", "0", "0/1/2", "2|.", "10/3"] {
            assert_eq!(Gt::parse(s).render(), s);
        }
        assert_eq!(Gt::parse("0/2").class(), GtClass::Multiallelic);
        assert_eq!(Gt::parse("1|1").class(), GtClass::Call(2));
        assert_eq!(Gt::parse("./2").class(), GtClass::MissingAndMultiallelic);
        assert_eq!(Gt::parse(".").class(), GtClass::Missing);
        assert_eq!(Gt::parse("0").class(), GtClass::NotDiploid);
    }
}
