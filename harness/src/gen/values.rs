//! Value strategies for spectra (never ramps: ramps are mirror-antisymmetric and hide mistakes).

use proptest::prelude::*;

use crate::{gen::shapes::elements, model::spec::Spec};

#[derive(Clone, Copy, Debug, PartialEq)]
pub enum Kind {
    /// small non-negative integers: all sums exact in f64
    Ints,
    /// non-negative reals
    Reals,
    /// mostly zero with a few non-zero integer cells
    Sparse,
    /// mix of the three, chosen per case
    Mixed,
}

fn cell(kind: Kind) -> BoxedStrategy<f64> {
    match kind {
        Kind::Ints => (0u32..40).prop_map(|v| v as f64).boxed(),
        Kind::Reals => prop_oneof![4 => 0.0f64..1000.0, 1 => 0.0f64..1e-3, 1 => Just(0.0)].boxed(),
        Kind::Sparse => prop_oneof![5 => Just(0.0), 1 => (1u32..200).prop_map(|v| v as f64)].boxed(),
        Kind::Mixed => unreachable!(),
    }
}

/// Values for a shape drawn separately: over-generate `max_elems` cells and truncate, so that the
/// vector shrinks cell by cell and independently of the shape.
pub fn spec_from(shape: impl Strategy<Value = Vec<usize>> + 'static, kind: Kind, max_elems: usize) -> BoxedStrategy<Spec> {
    let values: BoxedStrategy<Vec<f64>> = match kind {
        Kind::Mixed => prop_oneof![
            prop::collection::vec(cell(Kind::Ints), max_elems),
            prop::collection::vec(cell(Kind::Reals), max_elems),
            prop::collection::vec(cell(Kind::Sparse), max_elems),
        ]
        .boxed(),
        k => prop::collection::vec(cell(k), max_elems).boxed(),
    };
    (shape, values)
        .prop_map(move |(shape, mut values)| {
            let n = elements(&shape);
            assert!(n <= max_elems, "shape {shape:?} exceeds max_elems {max_elems}");
            values.truncate(n);
            Spec::new(shape, values)
        })
        .boxed()
}

/// The f64 "zoo": ordinary values mixed with ±0, subnormals, huge, negative, NaN payloads, ±inf.
pub fn zoo_bits() -> impl Strategy<Value = u64> {
    prop_oneof![
        6 => (-1000.0f64..1000.0).prop_map(f64::to_bits),
        3 => (0u32..100_000).prop_map(|v| (v as f64).to_bits()),
        2 => any::<f64>().prop_map(f64::to_bits),
        1 => Just(0.0f64.to_bits()),
        1 => Just((-0.0f64).to_bits()),
        1 => Just(f64::MIN_POSITIVE.to_bits()),
        1 => (1u64..0x000f_ffff_ffff_ffff).prop_map(|m| m), // positive subnormals
        1 => Just(1e300f64.to_bits()),
        1 => Just((-1e300f64).to_bits()),
        1 => Just(f64::MAX.to_bits()),
        1 => Just(f64::INFINITY.to_bits()),
        1 => Just(f64::NEG_INFINITY.to_bits()),
        1 => Just(f64::NAN.to_bits()),
        1 => (1u64..0x0007_ffff_ffff_ffff).prop_map(|p| 0x7ff8_0000_0000_0000 | p), // quiet NaN payloads
        1 => (1u64..0x0007_ffff_ffff_ffff).prop_map(|p| 0xfff0_0000_0000_0000 | p), // negative signalling NaN payloads
        1 => Just(0.1f64.to_bits()),
        1 => Just(0.5f64.to_bits()),
        1 => Just(2.5f64.to_bits()),
        1 => Just(0.000_000_5f64.to_bits()),
        1 => prop_oneof![Just(1e-20f64), Just(3.3e-25), Just(7.25e-18), Just(1e-40), Just(-4.4e-19)].prop_map(f64::to_bits),
        // small magnitudes with a full mantissa: the 16th and 17th decimal carry information
        2 => (1e-6f64..1e-2).prop_map(f64::to_bits),
        1 => (-1e-3f64..-1e-7).prop_map(f64::to_bits),
    ]
}
