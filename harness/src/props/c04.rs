//! C04 — marginalization is the array sum over the removed axes.

use proptest::prelude::*;
use serde::{Deserialize, Serialize};

use sfs_core::array::Axis;

use crate::{
    cli::{self, Input},
    engine::{guard, Ctx, EnumPart, Failure, Part, Pass, RandomPart, Verdict},
    gen::{
        shapes::{all_shapes, shape_strategy},
        values::{spec_from, Kind},
    },
    model::spec::{close, hashed_ints, Spec},
    props::{common, Check},
};

#[derive(Clone, Debug, Serialize, Deserialize)]
pub struct LibCase {
    pub spec: Spec,
    /// axes to remove, in the order they are named
    pub remove: Vec<usize>,
}

fn permutations(items: &[usize]) -> Vec<Vec<usize>> {
    if items.len() <= 1 {
        return vec![items.to_vec()];
    }
    let mut out = Vec::new();
    for i in 0..items.len() {
        let mut rest = items.to_vec();
        let x = rest.remove(i);
        for mut p in permutations(&rest) {
            p.insert(0, x);
            out.push(p);
        }
    }
    out
}

fn is_integral(spec: &Spec) -> bool {
    spec.values.iter().all(|v| v.fract() == 0.0 && v.abs() < 1e9)
}

fn same(a: &Spec, b: &Spec, exact: bool, scale: f64) -> bool {
    a.shape == b.shape
        && a.values.iter().zip(&b.values).all(|(x, y)| if exact { x == y } else { close(*x, *y, 1e-12, scale) })
}

fn lib_marginalize(spec: &Spec, axes: &[usize]) -> Result<Result<Spec, String>, Failure> {
    let scs = spec.to_scs();
    let axes: Vec<Axis> = axes.iter().map(|&a| Axis(a)).collect();
    guard(|| scs.marginalize(&axes).map(|s| Spec::from_scs(&s)).map_err(|e| e.to_string()))
        .map_err(|p| Failure::new(format!("marginalize({axes:?}) on shape {:?}: {p}", spec.shape)))
}

fn eval_lib(_ctx: &Ctx, case: &LibCase) -> Verdict {
    let spec = &case.spec;
    let d = spec.dims();
    let exact = is_integral(spec);
    let scale = spec.values.iter().map(|v| v.abs()).sum::<f64>();
    let remove = &case.remove;
    let want = spec.marginalize(remove);

    let got = match lib_marginalize(spec, remove)? {
        Ok(s) => s,
        Err(e) => fail!("marginalize({remove:?}) on shape {:?} failed: {e}", spec.shape),
    };
    let keep_shape: Vec<usize> = (0..d).filter(|a| !remove.contains(a)).map(|a| spec.shape[a]).collect();
    ensure!(got.shape == keep_shape, "marginalize({remove:?}) on shape {:?} has shape {:?}, kept axes in original order give {keep_shape:?}", spec.shape, got.shape);
    ensure!(
        same(&got, &want, exact, scale),
        "marginalize({remove:?}) on {:?} = {:?}, the sum over the removed axes is {:?}",
        spec,
        got.values,
        want.values
    );
    // mass
    if exact {
        ensure!(got.sum() == spec.sum(), "mass changed: {} -> {}", spec.sum(), got.sum());
    } else {
        ensure!(close(got.sum(), spec.sum(), 1e-12, scale), "mass changed: {} -> {}", spec.sum(), got.sum());
    }
    // every ordering
    let orders: Vec<Vec<usize>> = if remove.len() <= 4 {
        permutations(remove)
    } else {
        let mut sorted = remove.clone();
        sorted.sort();
        let mut rev = sorted.clone();
        rev.reverse();
        let mut rot = remove.clone();
        rot.rotate_left(1);
        vec![sorted, rev, rot]
    };
    for order in &orders {
        let other = match lib_marginalize(spec, order)? {
            Ok(s) => s,
            Err(e) => fail!("marginalize({order:?}) failed although marginalize({remove:?}) succeeded: {e}"),
        };
        ensure!(
            same(&other, &got, exact, scale),
            "result depends on the order the axes are named: {remove:?} -> {:?}, {order:?} -> {:?} (shape {:?})",
            got.values,
            other.values,
            spec.shape
        );
    }
    // the same spectrum at genome scale with fractional entries (totals of 1e9 .. 1e13, where sums
    // taken in different orders differ in their last bits): still the naive sum, to relative 1e-12
    if spec.values.iter().all(|v| v.is_finite()) && scale > 0.0 && scale < 1e6 {
        let c = 1.234_567_891e7;
        let big = Spec::new(spec.shape.clone(), spec.values.iter().map(|v| v * c + if *v != 0.0 { 0.37 } else { 0.0 }).collect());
        let want_big = big.marginalize(remove);
        let big_scale: f64 = big.values.iter().map(|v| v.abs()).sum();
        match lib_marginalize(&big, remove)? {
            Ok(got_big) => ensure!(same(&got_big, &want_big, false, big_scale), "marginalize({remove:?}) of the spectrum scaled to a total of {big_scale:e}: {:?}, naive sum {:?}", got_big.values.iter().take(6).collect::<Vec<_>>(), want_big.values.iter().take(6).collect::<Vec<_>>()),
            Err(e) => fail!("marginalize({remove:?}) failed on the spectrum scaled to a total of {big_scale:e}: {e}"),
        }
    }
    // the frequency type-state: the marginal of the normalised spectrum is the naive sum over the
    // normalised values
    if spec.values.iter().all(|v| v.is_finite() && *v >= 0.0) && spec.sum() > 0.0 {
        let scs = spec.to_scs();
        let axes: Vec<Axis> = remove.iter().map(|&a| Axis(a)).collect();
        let (normalised, marginal) = guard(move || {
            let sfs = scs.into_normalized();
            (Spec::from_scs(&sfs), sfs.marginalize(&axes).map(|m| Spec::from_scs(&m)).map_err(|e| e.to_string()))
        })
        .map_err(|p| Failure::new(format!("marginalize({remove:?}) on the normalised spectrum of shape {:?}: {p}", spec.shape)))?;
        let marginal = marginal.map_err(|e| Failure::new(format!("marginalize({remove:?}) on the normalised spectrum failed: {e}")))?;
        let want_n = normalised.marginalize(remove);
        ensure!(same(&marginal, &want_n, false, 1.0), "marginalize({remove:?}) of the normalised spectrum (Sfs) of {:?} = {:?}, the naive sum over the normalised values gives {:?}", spec, marginal.values, want_n.values);
    }
    // one at a time, the harness doing the renumbering
    {
        let mut cur = spec.clone();
        let mut alive: Vec<usize> = (0..d).collect();
        for &a in remove {
            let pos = alive.iter().position(|&x| x == a).expect("axis alive");
            cur = match lib_marginalize(&cur, &[pos])? {
                Ok(s) => s,
                Err(e) => fail!("single-axis marginalize({pos}) on shape {:?} failed: {e}", cur.shape),
            };
            alive.remove(pos);
        }
        ensure!(
            same(&cur, &got, exact, scale),
            "joint removal of {remove:?} differs from removing the axes one at a time: {:?} vs {:?} (shape {:?})",
            got.values,
            cur.values,
            spec.shape
        );
    }
    // errors
    {
        // every listed axis repeated at every position of the list (adjacent and separated copies)
        for &a in remove {
            for at in 0..=remove.len() {
                let mut dup = remove.clone();
                dup.insert(at, a);
                if let Ok(s) = lib_marginalize(spec, &dup)? {
                    fail!("duplicate axis list {dup:?} accepted on shape {:?}, returned shape {:?}", spec.shape, s.shape);
                }
            }
        }
        for bad in [d, d + 5, usize::MAX] {
            let mut axes = remove.clone();
            axes.push(bad);
            if let Ok(s) = lib_marginalize(spec, &axes)? {
                fail!("out-of-range axis list {axes:?} accepted on shape {:?}, returned shape {:?}", spec.shape, s.shape);
            }
            if let Ok(s) = lib_marginalize(spec, &[bad])? {
                fail!("out-of-range axis {bad} accepted on shape {:?}, returned shape {:?}", spec.shape, s.shape);
            }
        }
        let all: Vec<usize> = (0..d).collect();
        if let Ok(s) = lib_marginalize(spec, &all)? {
            fail!("removing every axis {all:?} accepted on shape {:?}, returned shape {:?}", spec.shape, s.shape);
        }
        let mut all_rev = all.clone();
        all_rev.reverse();
        if let Ok(s) = lib_marginalize(spec, &all_rev)? {
            fail!("removing every axis {all_rev:?} accepted, returned shape {:?}", s.shape);
        }
    }

    let mut lens = spec.shape.clone();
    lens.sort();
    lens.dedup();
    let pairwise = lens.len() == d;
    let unsorted = remove.windows(2).any(|w| w[0] > w[1]);
    let mut pass = Pass::new().nontrivial((d >= 3 && pairwise) || (remove.len() >= 2 && unsorted));
    pass.add_label(format!("axes={d}"));
    pass.add_label(format!("removed={}", remove.len()));
    if unsorted {
        pass.add_label("unsorted-list");
    }
    if pairwise && d >= 3 {
        pass.add_label("pairwise-unequal>=3");
    }
    pass.add_label(if exact { "integers" } else { "reals" });
    Ok(pass)
}

#[derive(Clone, Debug, Serialize, Deserialize)]
pub struct ShapeCase {
    pub shape: Vec<usize>,
}

fn subsets(d: usize) -> Vec<Vec<usize>> {
    (1u32..(1 << d) - 1).map(|m| (0..d).filter(|a| m & (1 << a) != 0).collect()).collect()
}

/// Exhaustive: for one shape, every non-empty proper subset of axes in every order.
fn eval_shape(ctx: &Ctx, case: &ShapeCase) -> Verdict {
    let d = case.shape.len();
    let spec = Spec::new(case.shape.clone(), hashed_ints(&case.shape, 0xC04, 23));
    let mut subsets_done = 0u64;
    let mut nontrivial = false;
    if d == 1 {
        // nothing can be removed from a one-axis spectrum
        if let Ok(s) = lib_marginalize(&spec, &[0])? {
            fail!("removing the only axis accepted, returned shape {:?}", s.shape);
        }
    }
    for subset in subsets(d) {
        for order in permutations(&subset) {
            let pass = eval_lib(ctx, &LibCase { spec: spec.clone(), remove: order })?;
            nontrivial |= pass.nontrivial;
            subsets_done += 1;
        }
    }
    let mut pass = Pass::new().nontrivial(nontrivial).label(format!("axes={d}"));
    pass.count("axis-lists", subsets_done);
    Ok(pass)
}

fn distinct_lengths_shape(max_axes: usize) -> impl Strategy<Value = Vec<usize>> {
    (Just((1usize..=6).collect::<Vec<_>>()).prop_shuffle(), 2usize..=max_axes).prop_map(|(mut v, d)| {
        v.truncate(d);
        v
    })
}

fn remove_list(d: usize) -> impl Strategy<Value = Vec<usize>> {
    (Just((0..d).collect::<Vec<_>>()).prop_shuffle(), 1usize..d.max(2)).prop_map(move |(mut v, r)| {
        v.truncate(r.min(d - 1).max(1));
        v
    })
}

fn lib_strategy() -> impl Strategy<Value = LibCase> {
    let shape = prop_oneof![3 => distinct_lengths_shape(5).boxed(), 2 => shape_strategy(2, 5, 1, 6, 4000).boxed()];
    spec_from(shape, Kind::Mixed, 6 * 5 * 4 * 3 * 2 * 6).prop_flat_map(|spec| {
        let d = spec.dims();
        (Just(spec), remove_list(d)).prop_map(|(spec, remove)| LibCase { spec, remove })
    })
}

// ---------------------------------------------------------------------------------------------
// CLI

#[derive(Clone, Debug, Serialize, Deserialize)]
pub struct CliCase {
    pub spec: Spec,
    pub remove: Vec<usize>,
    pub keep_order_seed: u16,
    pub precision: usize,
    pub npy_input: bool,
}

fn cli_strategy() -> impl Strategy<Value = CliCase> {
    let shape = prop_oneof![2 => distinct_lengths_shape(4).boxed(), 1 => shape_strategy(2, 4, 1, 5, 700).boxed()];
    spec_from(shape, Kind::Mixed, 720)
        .prop_flat_map(|spec| {
            let d = spec.dims();
            (Just(spec), remove_list(d), any::<u16>(), 0usize..=12, any::<bool>())
        })
        .prop_map(|(spec, remove, keep_order_seed, precision, npy_input)| CliCase {
            spec,
            remove,
            keep_order_seed,
            precision,
            npy_input,
        })
}

fn join(v: &[usize]) -> String {
    v.iter().map(|x| x.to_string()).collect::<Vec<_>>().join(",")
}

fn eval_cli(ctx: &Ctx, case: &CliCase) -> Verdict {
    let dir = ctx.worker_dir(crate::engine::worker_id());
    let d = case.spec.dims();
    let path = dir.join(if case.npy_input { "in.npy" } else { "in.sfs" });
    let bytes = if case.npy_input {
        common::npy_bytes(&case.spec)
    } else {
        common::text_bytes_exact(&case.spec)
    };
    std::fs::write(&path, bytes).expect("write input");
    let p = case.precision.to_string();
    let file = path.file_name().unwrap().to_str().unwrap().to_string();

    let run_m = cli::sfs(ctx, &["view", "-m", &join(&case.remove), "--precision", &p, &file], Input::Null, &dir);
    let got = cli::expect_spectrum(&run_m, &format!("sfs view -m {}", join(&case.remove)))?;
    let want = case.spec.marginalize(&case.remove);
    ensure!(got.shape == want.shape, "view -m {:?} on shape {:?}: output shape {:?}, expected {:?}", case.remove, case.spec.shape, got.shape, want.shape);
    let contributions = (case.spec.values.len() / want.values.len()) as f64;
    for (i, (g, w)) in got.values.iter().zip(&want.values).enumerate() {
        let tol = 0.5 * 10f64.powi(-(case.precision as i32)) * (1.0 + 1e-9) + 1e-9 * (1.0 + w.abs() * contributions);
        ensure!((g - w).abs() <= tol, "view -m {:?} on {:?}: cell {i} printed {g}, the sum over the removed axes is {w} (precision {})", case.remove, case.spec, case.precision);
    }

    // -M complement, in a shuffled order, must be byte-identical
    let mut keep: Vec<usize> = (0..d).filter(|a| !case.remove.contains(a)).collect();
    if keep.len() > 1 {
        let r = (case.keep_order_seed as usize) % keep.len();
        keep.rotate_left(r);
        if case.keep_order_seed & 0x100 != 0 {
            keep.reverse();
        }
    }
    let run_k = cli::sfs(ctx, &["view", "-M", &join(&keep), "--precision", &p, &file], Input::Null, &dir);
    ensure!(
        run_k.code == run_m.code && run_k.stdout == run_m.stdout,
        "`view -M {}` differs from `view -m {}` on shape {:?}: {} vs {}",
        join(&keep),
        join(&case.remove),
        case.spec.shape,
        run_k.describe(),
        run_m.describe()
    );
    // long option spelling
    let run_long = cli::sfs(ctx, &["view", "--marginalize-remove", &join(&case.remove), "--precision", &p, &file], Input::Null, &dir);
    ensure!(run_long.stdout == run_m.stdout && run_long.code == run_m.code, "--marginalize-remove differs from -m");

    // errors: duplicate, out of range, all axes
    let mut dup = case.remove.clone();
    dup.push(case.remove[0]);
    let all: Vec<usize> = (0..d).collect();
    let mut oob = case.remove.clone();
    oob.push(d);
    for (what, axes) in [("duplicate axis", &dup), ("every axis", &all), ("out-of-range axis", &oob)] {
        let run = cli::sfs(ctx, &["view", "-m", &join(axes), &file], Input::Null, &dir);
        ensure!(
            run.clean_failure() && !run.stdout_str().contains("#SHAPE"),
            "`view -m {}` ({what}) on shape {:?} should fail cleanly without output: {}",
            join(axes),
            case.spec.shape,
            run.describe()
        );
    }

    // the same for the list of axes to keep: an axis named twice or one that does not exist is an
    // error there too (the statement's last sentence does not depend on the spelling)
    {
        let keep: Vec<usize> = (0..d).filter(|a| !case.remove.contains(a)).collect();
        let mut dup_keep = keep.clone();
        dup_keep.insert(0, keep[keep.len() - 1]);
        let mut oob_keep = keep.clone();
        oob_keep.push(d + (case.keep_order_seed as usize % 3));
        let huge_keep: Vec<String> = keep.iter().map(|k| k.to_string()).chain(["18446744073709551615".to_string()]).collect();
        for (what, list) in [("duplicate axis", join(&dup_keep)), ("out-of-range axis", join(&oob_keep)), ("out-of-range axis", huge_keep.join(","))] {
            let run = cli::sfs(ctx, &["view", "-M", &list, &file], Input::Null, &dir);
            ensure!(
                run.clean_failure() && !run.stdout_str().contains("#SHAPE"),
                "`view -M {list}` ({what} in the list of axes to keep) on shape {:?} should fail cleanly without output: {}",
                case.spec.shape,
                run.describe()
            );
        }
    }

    let mut lens = case.spec.shape.clone();
    lens.sort();
    lens.dedup();
    let unsorted = case.remove.windows(2).any(|w| w[0] > w[1]);
    Ok(Pass::new()
        .nontrivial((d >= 3 && lens.len() == d) || (case.remove.len() >= 2 && unsorted))
        .label(format!("axes={d}"))
        .label(if case.npy_input { "npy-input" } else { "text-input" }))
}

// ---------------------------------------------------------------------------------------------
// marginalizing population B out of the joint spectrum == spectrum created without B

#[derive(Clone, Debug, Serialize, Deserialize)]
pub struct CreateCase {
    pub cs: crate::gen::callset::CallSet,
    pub map: crate::gen::callset::MapSpec,
    /// populations (axes) to marginalize out, in naming order
    pub remove: Vec<usize>,
}

fn create_strategy() -> impl Strategy<Value = CreateCase> {
    use crate::gen::callset::{callset_strategy, make_selected_diploid, map_draw_strategy, resolve_map, GenParams, Gt};
    let params = GenParams {
        max_records: 30,
        max_samples: 9,
        odd_ploidy: false,
        missing_weight: 0,
        multi_weight: 0,
        no_gt_per_256: 0,
    };
    (callset_strategy(params), map_draw_strategy(9), Just((0..4usize).collect::<Vec<_>>()).prop_shuffle(), any::<u16>()).prop_map(|(mut cs, mut draw, order, take)| {
        let n = cs.samples.len();
        let all = vec![true; n];
        make_selected_diploid(&mut cs, &all);
        // complete data: replace whatever is not a call
        for r in cs.records.iter_mut() {
            r.has_gt = true;
            for (i, g) in r.gts.iter_mut().enumerate() {
                if !g.is_call() {
                    *g = Gt::diploid(Some((i % 2) as u8), Some(((i + r.pos as usize) % 2) as u8), i % 3 == 0);
                }
            }
        }
        draw.n_labels = draw.n_labels.max(2);
        draw.all_weight = 0;
        let map = resolve_map(&draw, n);
        let d = map.pop_sizes().len();
        let order: Vec<usize> = order.into_iter().filter(|a| *a < d).collect();
        let r = if d >= 2 { 1 + crate::engine::pick_idx(take, d - 1) } else { 0 };
        CreateCase {
            cs,
            map,
            remove: order.into_iter().take(r).collect(),
        }
    })
}

fn eval_create(ctx: &Ctx, case: &CreateCase) -> Verdict {
    use crate::props::common::{run_create, Container, CreateOpts, Transport};
    let d = case.map.pop_sizes().len();
    if d < 2 || case.remove.is_empty() {
        return Ok(Pass::new().label("single-population(not-applicable)"));
    }
    let dir = ctx.worker_dir(crate::engine::worker_id());
    let opts = CreateOpts {
        map: Some(case.map.clone()),
        ..Default::default()
    };
    let (joint, argv) = run_create(ctx, &dir, "c04j", &case.cs, &Container::Vcf, &opts, Transport::Path);
    ensure!(joint.ok(), "`sfs {}` failed: {}", argv.join(" "), joint.describe());
    std::fs::write(dir.join("joint.sfs"), &joint.stdout).expect("write");
    let marg = cli::sfs(ctx, &["view", "-m", &join(&case.remove), "--precision", "0", "joint.sfs"], Input::Null, &dir);
    let got = cli::expect_spectrum(&marg, &format!("`sfs view -m {}` on the joint spectrum", join(&case.remove)))?;
    // the spectrum created for the remaining populations alone
    let pops = case.map.populations();
    let removed_pops: Vec<Option<usize>> = case.remove.iter().map(|a| pops[*a]).collect();
    let sub = crate::gen::callset::MapSpec {
        entries: case.map.entries.iter().filter(|e| !removed_pops.contains(&e.1)).cloned().collect(),
        ..case.map.clone()
    };
    let opts_sub = CreateOpts {
        map: Some(sub.clone()),
        ..Default::default()
    };
    let (alone, argv_sub) = run_create(ctx, &dir, "c04s", &case.cs, &Container::Vcf, &opts_sub, Transport::Path);
    let want = cli::expect_spectrum(&alone, &format!("`sfs {}`", argv_sub.join(" ")))?;
    ensure!(
        got.shape == want.shape && got.values == want.values,
        "marginalizing populations {:?} out of the joint spectrum (`sfs {}` | view -m {}) gives {:?} {:?}, but creating the spectrum for the remaining populations alone (`sfs {}`) gives {:?} {:?}",
        case.remove,
        argv.join(" "),
        join(&case.remove),
        got.shape,
        got.values,
        argv_sub.join(" "),
        want.shape,
        want.values
    );
    let sizes = case.map.pop_sizes();
    Ok(Pass::new().nontrivial(d >= 3 && sizes.iter().collect::<std::collections::BTreeSet<_>>().len() >= 2).label(format!("populations={d}")).label(format!("removed={}", case.remove.len())))
}

pub fn check(ctx: &Ctx) -> Check {
    let (max_axes, max_len) = ctx.tier.pick((4, 3), (4, 4));
    let parts: Vec<Box<dyn Part>> = vec![
        Box::new(EnumPart {
            name: "lib-exhaustive",
            rule: "every shape with <=4 axes of length <=3 (thorough <=4) and every 5-axis shape of lengths 1..2 x every non-empty proper subset of axes x every order of naming them, hashed integer fill; oracle = naive nested-index sum, order independence, joint == one-at-a-time, mass, error cases; non-trivial = >=3 pairwise unequal axes or >=2 removed axes named unsorted; distinct by shape",
            exhaustive: true,
            cases: Box::new(move |_| {
                let mut v: Vec<ShapeCase> = all_shapes(max_axes, 1, max_len).into_iter().map(|shape| ShapeCase { shape }).collect();
                // five axes of lengths 1..2: four removed axes named in every order
                v.extend(all_shapes(5, 1, 2).into_iter().filter(|s| s.len() == 5).map(|shape| ShapeCase { shape }));
                v
            }),
            eval: Box::new(eval_shape),
        }),
        Box::new(EnumPart {
            name: "lib-large-shapes",
            rule: "shapes whose rows (product of the axes after the removed one) pass 4096 / 8192 elements or sit beside those sizes, and long single axes: every non-empty proper subset of axes in every order, same oracles as lib-exhaustive",
            exhaustive: false,
            cases: Box::new(|ctx: &Ctx| {
                let mut v: Vec<Vec<usize>> = vec![vec![3, 65, 65], vec![2, 17, 17, 17], vec![2, 4099], vec![2, 4096], vec![3, 4097], vec![5, 3, 33, 33], vec![4100, 2], vec![2, 64, 64], vec![2, 8, 513], vec![3, 91, 91]];
                if ctx.tier == crate::engine::Tier::Thorough {
                    v.extend([vec![2, 129, 127], vec![2, 3, 4, 5, 70], vec![2, 65_537], vec![2, 256, 256], vec![7, 2, 8193]]);
                }
                v.into_iter().map(|shape| ShapeCase { shape }).collect()
            }),
            eval: Box::new(eval_shape),
        }),
        Box::new(RandomPart {
            name: "lib-random",
            rule: "random spectra with 2..5 axes, lengths 1..6 (60% pairwise unequal), integer/real/sparse values, random axis list in random order; same oracles; non-trivial as above; distinct by (spectrum, axis list)",
            cases: ctx.tier.pick(10_000, 400_000),
            strategy: Box::new(|| lib_strategy().boxed()),
            eval: Box::new(eval_lib),
        }),
        Box::new(RandomPart {
            name: "cli-view",
            rule: "sfs view -m/-M/--marginalize-remove on text and npy files: printed cells vs naive sum at the printed precision, -M K byte-identical to -m complement(K), duplicate/out-of-range/all axes fail cleanly, for -m and for -M alike; non-trivial as above",
            cases: ctx.tier.pick(800, 20_000),
            strategy: Box::new(|| cli_strategy().boxed()),
            eval: Box::new(eval_cli),
        }),
        Box::new(RandomPart {
            name: "create-marginalize",
            rule: "call sets without missing data, 2..4 populations of (mostly) unequal size: `create` for all populations piped into `view -m <populations>` must equal, as parsed integers, `create` for the remaining populations alone; non-trivial = >=3 populations with unequal sizes",
            cases: ctx.tier.pick(600, 15_000),
            strategy: Box::new(|| create_strategy().boxed()),
            eval: Box::new(eval_create),
        }),
    ];
    Check {
        parts,
        level: "exploration",
        assumptions: vec!["naive nested-index sum is the definition", "integer spectra compared exactly, reals to 1e-12 relative of the sum of absolute values"],
        post: None,
    }
}
