//! C12 — output depends only on call data, not container, transport, threads or run.

use proptest::prelude::*;
use serde::{Deserialize, Serialize};

use crate::{
    cli,
    engine::{pick_idx, Ctx, Part, Pass, RandomPart, Verdict},
    gen::{
        bgzf::{self, Layout},
        callset::{callset_strategy, finish_callset, force_record_classes, gt_strategy, make_selected_diploid, map_draw_strategy, resolve_map, CallSet, GenParams, MapSpec, Record},
    },
    props::{
        common::{render, run_create_bytes, Container, CreateOpts, Transport},
        Check,
    },
};

#[derive(Clone, Debug, Serialize, Deserialize)]
pub struct Case {
    pub cs: CallSet,
    pub map: MapSpec,
    pub vcf_layout: Layout,
    pub bcf_layout: Layout,
    pub threads: Vec<usize>,
    pub draws: Vec<u16>,
}

const THREADS: [usize; 6] = [1, 2, 3, 4, 8, 16];

fn small() -> impl Strategy<Value = CallSet> {
    // diploid call sets; a share keeps a non-diploid genotype so that the run fails
    let params = GenParams {
        odd_ploidy: true,
        ..GenParams::default()
    };
    (callset_strategy(params), prop::bool::weighted(0.12), prop::option::weighted(0.25, (any::<u16>(), any::<u16>()))).prop_map(|(mut cs, keep_odd, lone_dot)| {
        if !keep_odd {
            let all = vec![true; cs.samples.len()];
            make_selected_diploid(&mut cs, &all);
        }
        // a quarter of the call sets carry one genotype written as a lone `.` (the whole value
        // missing; htslib stores it as one missing allele plus end-of-vector padding)
        if let Some((r, smp)) = lone_dot {
            if !cs.records.is_empty() {
                let ri = pick_idx(r, cs.records.len());
                let si = pick_idx(smp, cs.samples.len());
                cs.records[ri].gts[si] = crate::gen::callset::Gt { alleles: vec![None], phased: vec![] };
            }
        }
        cs
    })
}

fn large() -> impl Strategy<Value = CallSet> {
    (120usize..=400, prop::collection::vec((prop::collection::vec(gt_strategy(false, 8, 4), 400), 1u64..=900, any::<u8>()), 5..=45)).prop_map(|(n, recs)| {
        let records: Vec<Record> = recs
            .into_iter()
            .map(|(gts, pos, f)| Record {
                contig: 0,
                pos,
                n_alt: 1 + f % 3,
                symbolic: false,
                id: f & 8 != 0,
                qual: Some(f as u16),
                filter: f % 3,
                info: f % 8,
                fmt_dp: f & 16 != 0,
                fmt_gq: f & 32 != 0,
                ref_pad: 0,
                has_gt: true,
                force: 0,
                gts,
            })
            .collect();
        finish_callset(vec!["Large".into()], n, (0..n).map(|i| format!("smp{}", i % 7)).collect(), records)
    })
}

fn strategy() -> impl Strategy<Value = Case> {
    (
        prop_oneof![7 => small().boxed(), 1 => large().boxed()],
        map_draw_strategy(12),
        bgzf::layout_strategy(),
        bgzf::layout_strategy(),
        Just(THREADS.to_vec()).prop_shuffle(),
        prop::collection::vec(any::<u16>(), 8),
    )
        .prop_map(|(mut cs, mut draw, vcf_layout, bcf_layout, threads, draws)| {
            let n = cs.samples.len();
            let map = if n > 12 {
                // large cohort: three populations of unequal size over a subset
                let a = n / 5;
                let b = n / 2;
                let entries = (0..n).filter(|i| i % 11 != 3).map(|i| (i, Some(if i < a { 2 } else if i < b { 0 } else { 1 }))).collect();
                MapSpec {
                    entries,
                    labels: vec!["zeta".into(), "alpha".into(), "mid".into()],
                    as_file: true,
                }
            } else {
                if draw.n_labels < 3 && draws[0] % 3 != 0 {
                    draw.n_labels = 3;
                }
                let map = resolve_map(&draw, n);
                let selected: Vec<bool> = map.assignment(n).iter().map(|a| a.is_some()).collect();
                force_record_classes(&mut cs, &selected);
                map
            };
            Case {
                cs,
                map,
                vcf_layout,
                bcf_layout,
                threads: threads.into_iter().take(4).collect(),
                draws,
            }
        })
}

fn eval(ctx: &Ctx, case: &Case) -> Verdict {
    let t0 = std::time::Instant::now();
    let dir = ctx.worker_dir(crate::engine::worker_id());
    let containers = [Container::Vcf, Container::VcfGz(case.vcf_layout.clone()), Container::Bcf(case.bcf_layout.clone()), Container::BcfRaw];
    let rendered: Vec<(Vec<u8>, usize)> = containers.iter().map(|c| render(&case.cs, c)).collect();
    let t_render = t0.elapsed().as_secs_f64();
    // one further option per case (decided by the draws): none, a projection in either spelling,
    // --strict, verbose or quiet logging -- none of them may make the result depend on the container
    let pops = case.map.pop_sizes().len();
    let variant = (case.draws[3] >> 4) % 7;
    let base_opts = CreateOpts {
        map: Some(case.map.clone()),
        project: match variant {
            1 => Some(crate::props::common::Projection { m: vec![1; pops], individuals: false }),
            2 => Some(crate::props::common::Projection { m: vec![2; pops], individuals: true }),
            _ => None,
        },
        // with a projection, ask for every digit: sums of floating-point contributions must come out
        // the same whatever the container, transport, thread count or process
        precision: if variant == 1 || variant == 2 { Some(17) } else { None },
        strict: variant == 3,
        verbose: if variant == 4 { 2 } else { 0 },
        quiet: if variant == 5 { 1 } else { 0 },
        ..Default::default()
    };
    let mut reference: Option<(cli::Run, String)> = None;
    let mut executions = 0u64;
    let mut compare = |run: cli::Run, what: String| -> Result<(), crate::engine::Failure> {
        executions += 1;
        ensure!(!run.timed_out, "{what}: timed out");
        match &reference {
            None => {
                reference = Some((run, what));
                Ok(())
            }
            Some((r, rwhat)) => {
                ensure!(
                    r.code == run.code && r.signal == run.signal && r.stdout == run.stdout,
                    "same call data, different result:\n  {rwhat}: exit={:?} stdout={:?} stderr={:?}\n  {what}: exit={:?} stdout={:?} stderr={:?}",
                    r.code,
                    cli::cut(&r.stdout_str(), 300),
                    cli::cut(&r.stderr_str(), 200),
                    run.code,
                    cli::cut(&run.stdout_str(), 300),
                    cli::cut(&run.stderr_str(), 200)
                );
                Ok(())
            }
        }
    };
    // every container by path, default threads
    for (c, (bytes, _)) in containers.iter().zip(&rendered) {
        let (run, _) = run_create_bytes(ctx, &dir, "c12", &case.cs, bytes, c.ext(), &base_opts, Transport::Path);
        compare(run, format!("{} by path", c.label()))?;
    }
    // transports: stdin from a file and from a pipe, on two containers chosen by the draws
    for (k, transport) in [Transport::StdinFile, Transport::StdinPipe, Transport::DevStdin, Transport::Fifo].into_iter().enumerate() {
        for j in 0..2 {
            // the pipes-by-path take the plain VCF and one drawn container (plain text is the one
            // container read line by line straight from the handle)
            let ci = if k >= 2 && j == 0 { 0 } else { pick_idx(case.draws[(2 * k + j) % 4].rotate_left(k as u32), 4) };
            let (run, _) = run_create_bytes(ctx, &dir, "c12", &case.cs, &rendered[ci].0, containers[ci].ext(), &base_opts, transport);
            compare(run, format!("{} via {transport:?}", containers[ci].label()))?;
        }
    }
    // thread counts on the two BGZF containers, each executed twice more with the first count
    for (ti, &t) in case.threads.iter().enumerate() {
        for ci in [1usize, 2] {
            let opts = CreateOpts { threads: Some(t), ..base_opts.clone() };
            let transport = if (case.draws[6] >> ti) & 1 == 0 { Transport::Path } else { Transport::StdinFile };
            let reps = if ti == 0 { 3 } else { 1 };
            for rep in 0..reps {
                // repeated executions: unpinned, pinned to one CPU, pinned to two CPUs (different
                // interleavings of the reader's worker threads)
                let pin: Option<Vec<usize>> = match rep {
                    1 => Some(vec![(case.draws[5] as usize) % 16]),
                    2 => Some(vec![(case.draws[5] as usize) % 16, (case.draws[4] as usize) % 16]),
                    _ => None,
                };
                cli::PIN_CPUS.with(|p| *p.borrow_mut() = pin.clone());
                let (run, _) = run_create_bytes(ctx, &dir, "c12", &case.cs, &rendered[ci].0, containers[ci].ext(), &opts, transport);
                cli::PIN_CPUS.with(|p| *p.borrow_mut() = None);
                compare(run, format!("{} with --threads {t} ({transport:?}, execution {rep}, cpus {pin:?})", containers[ci].label()))?;
            }
        }
    }
    // the environment: locale, time zone, logging variables, HOME, a different working directory
    {
        let envs: [&[(&str, &str)]; 4] = [
            &[("LC_ALL", "tr_TR.UTF-8"), ("LANG", "tr_TR.UTF-8"), ("TZ", "Pacific/Kiritimati")],
            &[("RUST_LOG", "trace"), ("NO_COLOR", "1"), ("TERM", "dumb")],
            &[("HOME", "/nonexistent"), ("COLUMNS", "1"), ("RUST_MIN_STACK", "8388608")],
            &[("LC_NUMERIC", "de_DE.UTF-8"), ("LANGUAGE", "de"), ("CLICOLOR_FORCE", "1")],
        ];
        let ci = pick_idx(case.draws[7], 4);
        let name = format!("c12.{}", containers[ci].ext());
        std::fs::write(dir.join(&name), &rendered[ci].0).expect("write");
        for env in envs {
            let argv = crate::props::common::create_argv(&case.cs, &base_opts, Some(&name), "c12.samples");
            let run = cli::run_bin(ctx, &ctx.sfs_bin, &argv, cli::Input::Null, &dir, env);
            compare(run, format!("{} by path with environment {env:?}", containers[ci].label()))?;
        }
    }
    let blocks = rendered[1].1.max(rendered[2].1);
    // the library's genotype reader on the same four byte strings, with the format and / or the
    // compression detected or named (truthfully) by the caller, at two thread counts: one result
    let mut library_reads = 0u64;
    {
        let mut first: Option<(crate::props::c18::CreateResult, String)> = None;
        for (i, c) in containers.iter().enumerate() {
            for declared in 0..=3u8 {
                for &threads in case.threads.iter().take(2) {
                    let got = crate::props::c18::create_in_process_declared(&case.cs, &case.map, std::io::Cursor::new(rendered[i].0.clone()), threads.max(1), declared, c)?;
                    let what = format!("{} with {} and {} threads", c.label(), ["format and compression detected", "the format named by the caller", "the compression named by the caller", "format and compression named by the caller"][declared as usize], threads.max(1));
                    library_reads += 1;
                    match &first {
                        None => first = Some((got, what)),
                        Some((want, how)) => ensure!(
                            &got == want,
                            "same call data through the library reader: {what} gives {}, {how} gives {}",
                            crate::props::c18::describe(&got),
                            crate::props::c18::describe(want)
                        ),
                    }
                }
            }
        }
    }
    let (r, _) = reference.as_ref().unwrap();
    let mut pass = Pass::new().nontrivial(blocks >= 3);
    pass.count("library-reads", library_reads);
    pass.count("executions", executions);
    pass.count("ms-render", (t_render * 1000.0) as u64);
    pass.count("ms-total", (t0.elapsed().as_secs_f64() * 1000.0) as u64);
    if t0.elapsed().as_secs_f64() > 3.0 {
        pass.add_label("slow>3s");
    }
    pass.add_label(if r.ok() { "run-succeeds" } else { "run-fails" });
    pass.add_label(if blocks >= 50 { "blocks>=50" } else if blocks >= 3 { "blocks>=3" } else { "blocks<3" });
    if rendered[1].0.len() > 70_000 || rendered[2].0.len() > 70_000 {
        pass.add_label("compressed>64KiB");
    }
    if case.cs.samples.len() > 12 {
        pass.add_label("large-cohort");
    }
    pass.add_label(format!("populations={}", case.map.pop_sizes().len()));
    pass.add_label(format!("extra-option={}", ["none", "--project-shape 2.. --precision 17", "-p 1.. --precision 17", "--strict", "-vv", "-q", "none"][variant as usize]));
    Ok(pass)
}

pub fn check(ctx: &Ctx) -> Check {
    let parts: Vec<Box<dyn Part>> = vec![Box::new(RandomPart {
        name: "containers-transports-threads",
        rule: "diploid call sets (incl. large cohorts of 120..400 samples so that 64 KiB blocks occur, ~12% call sets that make the run fail, and a quarter with one genotype written as a lone `.`) rendered as vcf / bgzf-vcf / bgzf-bcf / raw bcf with generated BGZF layouts (gzip header fields as htslib writes them or with a time stamp / compression hint / OS byte, one line per block, 1-byte blocks, cuts inside lines and BCF records, 64 KiB payloads, stored/compressed, empty blocks first/middle/last, with and without EOF marker) x {path, stdin from file, stdin from pipe, a pipe named by path (/dev/stdin), a named pipe (mkfifo)} x BCF dictionaries with GT at index 5 or above 127 x --threads from {1,2,3,4,8,16} x repeated executions (unpinned, pinned to one CPU, pinned to two CPUs) x one further option per case (none / --project-shape or -p, printed with 17 decimals / --strict / -vv / -q) x four environments (Turkish/German locale, exotic time zone, RUST_LOG=trace, HOME unset-like, forced colour); >=3 populations of unequal size: ALL executions of a case must have byte-identical stdout and equal exit status (~24 executions per case); non-trivial = an input of >=3 BGZF blocks; the four byte strings also through the library's genotype reader with format and compression detected, or named truthfully by the caller (`set_format`, `set_compression_method`, both), at two thread counts: one result",
        cases: ctx.tier.pick(120, 3000),
        strategy: Box::new(|| strategy().boxed()),
        eval: Box::new(eval),
    })];
    Check {
        parts,
        level: "exploration",
        assumptions: vec![
            "worker-thread interleavings inside the BGZF reader and per-process hash seeds are sampled by repetition, not controlled",
            "stderr is not compared (messages legitimately differ between the VCF and BCF readers)",
        ],
        post: None,
    }
}
