//! One module per property; `run` dispatches, handles regressions, known findings, evidence.

use std::path::Path;

use serde_json::{json, Value};

use crate::engine::{self, Ctx, Part};

pub mod c01;
pub mod c02;
pub mod c03;
pub mod c04;
pub mod c05;
pub mod c06;
pub mod c07;
pub mod c08;
pub mod c09;
pub mod c10;
pub mod c11;
pub mod c12;
pub mod c13;
pub mod c14;
pub mod c15;
pub mod c16;
pub mod c17;
pub mod c18;
pub mod c19;
pub mod common;
pub mod selftest;

pub struct Check {
    pub parts: Vec<Box<dyn Part>>,
    pub level: &'static str,
    pub assumptions: Vec<&'static str>,
    /// Extra per-check evidence computed after the run (e.g. starvation guards); Err = inconclusive.
    pub post: Option<Box<dyn Fn(&engine::RunReport) -> Result<Value, String>>>,
}

fn build(ctx: &Ctx) -> Option<Check> {
    Some(match ctx.property.as_str() {
        "C01" => c01::check(ctx),
        "C02" => c02::check(ctx),
        "C03" => c03::check(ctx),
        "C04" => c04::check(ctx),
        "C05" => c05::check(ctx),
        "C06" => c06::check(ctx),
        "C07" => c07::check(ctx),
        "C08" => c08::check(ctx),
        "C09" => c09::check(ctx),
        "C10" => c10::check(ctx),
        "C11" => c11::check(ctx),
        "C12" => c12::check(ctx),
        "C13" => c13::check(ctx),
        "C14" => c14::check(ctx),
        "C15" => c15::check(ctx),
        "C16" => c16::check(ctx),
        "C17" => c17::check(ctx),
        "C18" => c18::check(ctx),
        "C19" => c19::check(ctx),
        _ => return None,
    })
}

pub fn selftest(ctx: &Ctx) -> i32 {
    selftest::run(ctx)
}

/// Replays every committed regression file of this property; returns the first failure.
fn run_regressions(ctx: &Ctx, check: &Check) -> (u64, Option<(engine::Violation, std::path::PathBuf)>) {
    let dir = ctx.verif_dir.join("regressions").join(&ctx.property);
    let mut n = 0;
    let Ok(rd) = std::fs::read_dir(&dir) else {
        return (0, None);
    };
    let mut files: Vec<_> = rd.filter_map(|e| e.ok()).map(|e| e.path()).filter(|p| p.extension().map(|e| e == "json").unwrap_or(false)).collect();
    files.sort();
    for path in files {
        let Ok(text) = std::fs::read_to_string(&path) else { continue };
        let Ok(v) = serde_json::from_str::<Value>(&text) else { continue };
        let part_name = v["part"].as_str().unwrap_or("");
        let Some(part) = check.parts.iter().find(|p| p.name() == part_name) else { continue };
        n += 1;
        if let Err(f) = part.replay(ctx, &v["case"]) {
            let violation = engine::Violation {
                part: part_name.to_string(),
                case: v["case"].clone(),
                failure: f,
            };
            return (n, Some((violation, path)));
        }
    }
    (n, None)
}

pub fn run(ctx: &Ctx, replay: Option<&Path>) -> i32 {
    let Some(check) = build(ctx) else {
        eprintln!("unknown property {}", ctx.property);
        return 2;
    };

    if let Some(path) = replay {
        let text = match std::fs::read_to_string(path) {
            Ok(t) => t,
            Err(e) => {
                eprintln!("cannot read replay file {}: {e}", path.display());
                return 2;
            }
        };
        let v: Value = match serde_json::from_str(&text) {
            Ok(v) => v,
            Err(e) => {
                eprintln!("replay file is not JSON: {e}");
                return 2;
            }
        };
        let part_name = v["part"].as_str().unwrap_or("");
        let Some(part) = check.parts.iter().find(|p| p.name() == part_name) else {
            eprintln!("replay file names unknown part {part_name:?}");
            return 2;
        };
        return match part.replay(ctx, &v["case"]) {
            Ok(_) => {
                println!("REPLAY-PASS property={} part={} file={}", ctx.property, part_name, path.display());
                0
            }
            Err(f) => {
                println!("replay failure: {}", f.message);
                if !f.detail.is_null() {
                    println!("{}", serde_json::to_string_pretty(&f.detail).unwrap_or_default());
                }
                println!("VIOLATION property={} replay={}", ctx.property, path.display());
                1
            }
        };
    }

    for o in ctx.findings.open_for(&ctx.property) {
        println!("KNOWN-FINDING: property={} {}", ctx.property, o.what);
    }

    let start = std::time::Instant::now();
    let (n_reg, reg_fail) = run_regressions(ctx, &check);
    let mut report = if let Some((v, path)) = reg_fail {
        engine::RunReport {
            parts: vec![],
            violation: Some((v, path)),
            wall_s: 0.0,
        }
    } else {
        engine::run_parts(ctx, &check.parts)
    };
    report.wall_s = start.elapsed().as_secs_f64();

    let mut extra = json!({ "regressions_replayed": n_reg });
    let mut post_problem = None;
    if report.violation.is_none() {
        if let Some(post) = &check.post {
            match post(&report) {
                Ok(v) => extra["post"] = v,
                Err(e) => post_problem = Some(e),
            }
        }
    }
    engine::write_evidence(ctx, &report, check.level, &check.assumptions, extra);

    let inconclusive = ctx.inconclusive.lock().unwrap().clone();
    if !inconclusive.is_empty() || post_problem.is_some() {
        for n in &inconclusive {
            println!("INCONCLUSIVE property={} {}", ctx.property, n);
        }
        if let Some(p) = post_problem {
            println!("INCONCLUSIVE property={} {}", ctx.property, p);
        }
        return 2;
    }
    if let Some((v, path)) = &report.violation {
        println!("violation in part {}: {}", v.part, v.failure.message);
        println!("VIOLATION property={} replay={}", ctx.property, path.display());
        return 1;
    }
    println!(
        "OK property={} tier={} seed={} evaluations={} wall={:.1}s",
        ctx.property,
        ctx.tier.name(),
        ctx.seed,
        report.parts.iter().map(|p| p.evaluations).sum::<u64>(),
        report.wall_s
    );
    0
}
