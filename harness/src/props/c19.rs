//! C19 — array, axis-view and iterator API invariants.

use proptest::prelude::*;
use serde::{Deserialize, Serialize};

use sfs_core::{
    array::{Array, Axis},
    Scs,
};

use crate::{
    engine::{guard, Ctx, EnumPart, Failure, Part, Pass, RandomPart, Verdict},
    gen::shapes::{all_shapes, elements, flat, odometer, shape_strategy},
    props::Check,
};

/// Arrays with a zero-length axis hold no element: every index is out of range, every in-range
/// (axis, position) view is empty, sums are zeros of the reduced shape -- and nothing panics.
fn eval_empty_shape(_ctx: &Ctx, case: &ShapeCase) -> Verdict {
    let shape = &case.shape;
    let d = shape.len();
    let array = g(&format!("Array::new(vec![], {shape:?})"), || Array::new(Vec::<f64>::new(), shape.to_vec()))?.map_err(|e| Failure::new(format!("Array::new(vec![], {shape:?}) failed: {e}")))?;
    let mut it = array.iter_indices();
    ensure!(g("IndicesIter::len", || it.len())? == 0, "shape {shape:?}: iter_indices().len() != 0");
    ensure!(g("IndicesIter::next", || it.next())?.is_none(), "shape {shape:?}: iter_indices yields an index");
    for idx in [vec![0usize; d], shape.iter().map(|l| l.saturating_sub(1)).collect::<Vec<_>>()] {
        let got = g(&format!("get({idx:?}) on shape {shape:?}"), || array.get(&idx).copied())?;
        ensure!(got.is_none(), "shape {shape:?}: get({idx:?}) = {got:?} on an array without elements");
    }
    for a in 0..d {
        for pos in 0..shape[a] + 2 {
            let what = format!("get_axis(Axis({a}), {pos}) on the empty shape {shape:?}");
            let view_len = g(&what, || array.get_axis(Axis(a), pos).map(|v| v.iter().count()))?;
            if pos < shape[a] {
                ensure!(view_len == Some(0), "{what}: expected an empty view, got {view_len:?}");
            } else {
                ensure!(view_len.is_none(), "{what}: position out of range, expected None, got a view of {view_len:?} items");
            }
        }
        let what = format!("iter_axis(Axis({a})) on the empty shape {shape:?}");
        let mut it = g(&what, || array.iter_axis(Axis(a)))?;
        let mut yielded = 0usize;
        loop {
            let len = g(&format!("{what}: len()"), || it.len())?;
            ensure!(len == shape[a] - yielded, "{what}: len() = {len} after {yielded} of {} views", shape[a]);
            match g(&format!("{what}: next()"), || it.next().map(|v| v.iter().count()))? {
                Some(items) => {
                    ensure!(items == 0, "{what}: view {yielded} has {items} items");
                    yielded += 1;
                    ensure!(yielded <= shape[a], "{what}: more views than the axis is long");
                }
                None => break,
            }
        }
        ensure!(yielded == shape[a], "{what}: {yielded} views, the axis has length {}", shape[a]);
        let got = g(&format!("sum(Axis({a})) on the empty shape {shape:?}"), || array.sum(Axis(a)))?;
        let want_shape: Vec<usize> = shape.iter().enumerate().filter(|(i, _)| *i != a).map(|(_, &l)| l).collect();
        if d > 1 {
            ensure!(got.shape().as_ref() == want_shape.as_slice(), "sum(Axis({a})) of the empty shape {shape:?} has shape {:?}", got.shape());
            ensure!(got.as_slice().iter().all(|v| *v == 0.0), "sum(Axis({a})) of the empty shape {shape:?} = {:?}", got.as_slice());
        }
    }
    Ok(Pass::new().nontrivial(d >= 2).label(format!("axes={d}")))
}

#[derive(Clone, Debug, Serialize, Deserialize)]
pub struct ShapeCase {
    pub shape: Vec<usize>,
}

fn g<T>(what: &str, f: impl FnOnce() -> T) -> Result<T, Failure> {
    guard(f).map_err(|p| Failure::new(format!("{what}: {p}")))
}

/// Array filled with distinct integers 1, 2, 3, ... in row-major order (0 is never a value, so a
/// spurious default/zero shows up).
fn distinct_array(shape: &[usize]) -> Array<f64> {
    let n = elements(shape);
    Array::new((1..=n).map(|v| v as f64).collect::<Vec<_>>(), shape.to_vec()).expect("shape fits")
}

/// Expected elements of the view at (axis, pos): row-major order of the remaining axes.
fn expected_view(shape: &[usize], axis: usize, pos: usize) -> Vec<f64> {
    odometer(shape)
        .into_iter()
        .filter(|idx| idx[axis] == pos)
        .map(|idx| (flat(shape, &idx) + 1) as f64)
        .collect()
}

fn eval_shape(_ctx: &Ctx, case: &ShapeCase) -> Verdict {
    let shape = &case.shape;
    let d = shape.len();
    let n = elements(shape);
    let array = distinct_array(shape);
    let odo = odometer(shape);

    // --- index iteration, len() along the way, fused past the end
    {
        let mut it = array.iter_indices();
        for (k, want) in odo.iter().enumerate() {
            let len = g("IndicesIter::len", || it.len())?;
            ensure!(len == n - k, "shape {shape:?}: IndicesIter::len() = {len} before item {k}, {} items remain", n - k);
            let got = g("IndicesIter::next", || it.next())?;
            ensure!(got.as_ref() == Some(want), "shape {shape:?}: iter_indices item {k} = {got:?}, row-major order gives {want:?}");
        }
        for extra in 0..3 {
            let len = g("IndicesIter::len after exhaustion", || it.len())?;
            ensure!(len == 0, "shape {shape:?}: IndicesIter::len() = {len} after exhaustion");
            let got = g("IndicesIter::next after exhaustion", || it.next())?;
            ensure!(got.is_none(), "shape {shape:?}: iter_indices yields {got:?} on call {extra} after the first None");
        }
    }

    // --- get / Index / get_mut on every valid index; bijection flat <-> index
    {
        let mut copy = array.clone();
        for (k, idx) in odo.iter().enumerate() {
            let got = g("Array::get", || array.get(idx).copied())?;
            ensure!(got == Some((k + 1) as f64), "shape {shape:?}: get({idx:?}) = {got:?}, element at row-major position {k} is {}", k + 1);
            let via_index = g("Index", || array[idx.as_slice()])?;
            ensure!(via_index == (k + 1) as f64, "shape {shape:?}: array[{idx:?}] = {via_index}");
            let got_mut = g("Array::get_mut", || copy.get_mut(idx).map(|v| *v))?;
            ensure!(got_mut == Some((k + 1) as f64), "shape {shape:?}: get_mut({idx:?}) = {got_mut:?}");
            ensure!(array.as_slice()[k] == (k + 1) as f64, "as_slice order");
        }
        // out-of-range coordinates and wrong-length indices
        let mut bad: Vec<Vec<usize>> = Vec::new();
        let last: Vec<usize> = shape.iter().map(|l| l - 1).collect();
        for a in 0..d {
            for v in [shape[a], shape[a] + 1, usize::MAX] {
                let mut idx = last.clone();
                idx[a] = v;
                bad.push(idx.clone());
                let mut idx0 = vec![0; d];
                idx0[a] = v;
                bad.push(idx0);
            }
        }
        bad.push(vec![]);
        bad.push(last[..d - 1].to_vec());
        let mut longer = last.clone();
        longer.push(0);
        bad.push(longer);
        bad.push(vec![0; d + 2]);
        for idx in &bad {
            let got = g(&format!("Array::get({idx:?}) on shape {shape:?}"), || array.get(idx).copied())?;
            ensure!(got.is_none(), "shape {shape:?}: get({idx:?}) = {got:?}, expected None");
            let got = g(&format!("Array::get_mut({idx:?}) on shape {shape:?}"), || copy.get_mut(idx).map(|v| *v))?;
            ensure!(got.is_none(), "shape {shape:?}: get_mut({idx:?}) = {got:?}, expected None");
        }
    }

    // --- get_axis bounds
    for axis in [d, d + 1, usize::MAX] {
        for pos in [0usize, 1, usize::MAX] {
            let got = g(&format!("get_axis(Axis({axis}), {pos}) on shape {shape:?}"), || array.get_axis(Axis(axis), pos).is_some())?;
            ensure!(!got, "shape {shape:?}: get_axis(Axis({axis}), {pos}) returned a view, expected None");
        }
    }
    // --- iter_axis on an axis that does not exist: an iterator that yields nothing and says so
    for axis in [d, d + 1, usize::MAX] {
        let what = format!("iter_axis(Axis({axis})) on shape {shape:?}");
        let mut it = g(&what, || array.iter_axis(Axis(axis)))?;
        for call in 0..3 {
            let len = g(&format!("{what}: len()"), || it.len())?;
            ensure!(len == 0, "{what}: len() = {len} on call {call}, but the iterator yields nothing");
            let hint = g(&format!("{what}: size_hint()"), || it.size_hint())?;
            ensure!(hint == (0, Some(0)), "{what}: size_hint() = {hint:?}, expected (0, Some(0))");
            let got = g(&format!("{what}: next()"), || it.next().is_some())?;
            ensure!(!got, "{what}: yields a view on call {call}");
        }
    }
    for a in 0..d {
        for pos in [shape[a], shape[a] + 1, usize::MAX] {
            let got = g(&format!("get_axis(Axis({a}), {pos}) on shape {shape:?}"), || array.get_axis(Axis(a), pos).is_some())?;
            ensure!(!got, "shape {shape:?}: get_axis(Axis({a}), {pos}) returned a view, expected None");
        }
    }

    // --- the other constructors build the same array: bijection and views do not depend on how it was made
    {
        let data: Vec<f64> = (1..=n).map(|v| v as f64).collect();
        let from_iter = g("Array::from_iter", || Array::from_iter(data.iter().copied(), shape.to_vec()).map_err(|e| e.to_string()))?;
        match from_iter {
            Ok(a2) => ensure!(a2.shape().as_ref() == shape.as_slice() && a2.as_slice() == array.as_slice(), "shape {shape:?}: Array::from_iter built shape {:?} data {:?}", a2.shape(), a2.as_slice()),
            Err(e) => fail!("shape {shape:?}: Array::from_iter rejects {n} items: {e}"),
        }
        for wrong in [n + 1, n.saturating_sub(1), n + shape[d - 1]] {
            if wrong != n {
                let r = g("Array::from_iter with a wrong count", || Array::from_iter((0..wrong).map(|v| v as f64), shape.to_vec()).is_ok())?;
                ensure!(!r, "shape {shape:?}: Array::from_iter accepted {wrong} items for {n} elements");
                let r = g("Array::new with a wrong count", || Array::new((0..wrong).map(|v| v as f64).collect::<Vec<f64>>(), shape.to_vec()).is_ok())?;
                ensure!(!r, "shape {shape:?}: Array::new accepted {wrong} items for {n} elements");
            }
        }
        let filled = g("Array::from_element", || Array::from_element(2.5f64, shape.to_vec()))?;
        ensure!(filled.shape().as_ref() == shape.as_slice() && filled.as_slice().len() == n && filled.as_slice().iter().all(|v| *v == 2.5), "shape {shape:?}: from_element built shape {:?} with {} elements", filled.shape(), filled.as_slice().len());
        let zeros = g("Array::from_zeros", || Array::<f64>::from_zeros(shape.to_vec()))?;
        ensure!(zeros.shape().as_ref() == shape.as_slice() && zeros.as_slice().len() == n && zeros.as_slice().iter().all(|v| *v == 0.0), "shape {shape:?}: from_zeros built shape {:?} with {} elements", zeros.shape(), zeros.as_slice().len());
        // writing through as_mut_slice at flat position k is seen by the index that maps to k
        let mut copy = zeros.clone();
        for (k, idx) in odo.iter().enumerate() {
            copy.as_mut_slice()[k] = -((k + 1) as f64);
            let got = g("Array::get after as_mut_slice", || copy.get(idx).copied())?;
            ensure!(got == Some(-((k + 1) as f64)), "shape {shape:?}: wrote flat position {k} through as_mut_slice, get({idx:?}) = {got:?}");
        }
    }

    // --- every view: contents, order, once, len, fused, to_array; sum
    for a in 0..d {
        let mut sum_of_views = vec![0.0f64; n / shape[a]];
        for pos in 0..shape[a] {
            let want = expected_view(shape, a, pos);
            let view = g("get_axis", || array.get_axis(Axis(a), pos))?;
            let Some(view) = view else {
                fail!("shape {shape:?}: get_axis(Axis({a}), {pos}) = None for an in-range request");
            };
            let dims = g("View::dimensions", || view.dimensions())?;
            ensure!(dims == d - 1, "shape {shape:?}: view at ({a},{pos}) has {dims} dimensions, expected {}", d - 1);
            let what = format!("view::Iter of shape {shape:?} at (axis {a}, position {pos})");
            let mut it = g(&what, || view.iter())?;
            for (k, w) in want.iter().enumerate() {
                let len = g(&format!("{what}: len()"), || it.len())?;
                ensure!(len == want.len() - k, "{what}: len() = {len} before item {k}, {} remain", want.len() - k);
                let got = g(&format!("{what}: next()"), || it.next().copied())?;
                ensure!(got == Some(*w), "{what}: item {k} = {got:?}, expected {w} (all: {want:?})");
            }
            for extra in 0..(want.len() + 3) {
                let len = g(&format!("{what}: len() after exhaustion"), || it.len())?;
                ensure!(len == 0, "{what}: len() = {len} after exhaustion (call {extra})");
                let got = g(&format!("{what}: next() after exhaustion"), || it.next().copied())?;
                ensure!(got.is_none(), "{what}: yields {got:?} on call {extra} after the first None");
            }
            // the panicking twin of get_axis gives the same view for an in-range request
            let twin = g(&format!("index_axis(Axis({a}), {pos}) on shape {shape:?}"), || array.index_axis(Axis(a), pos).iter().copied().collect::<Vec<f64>>())?;
            ensure!(twin == want, "shape {shape:?}: index_axis(Axis({a}), {pos}) iterates {twin:?}, get_axis gives {want:?}");
            let arr = g(&format!("{what}: to_array"), || view.to_array())?;
            let want_shape: Vec<usize> = shape.iter().enumerate().filter(|(i, _)| *i != a).map(|(_, &l)| l).collect();
            ensure!(arr.shape().as_ref() == want_shape.as_slice(), "{what}: to_array shape {:?}, expected {want_shape:?}", arr.shape());
            ensure!(arr.as_slice() == want.as_slice(), "{what}: to_array data {:?}, expected {want:?}", arr.as_slice());
            for (s, w) in sum_of_views.iter_mut().zip(&want) {
                *s += w;
            }
        }
        // AxisIter
        {
            let what = format!("AxisIter of shape {shape:?} along axis {a}");
            let mut it = g(&what, || array.iter_axis(Axis(a)))?;
            for k in 0..shape[a] {
                let len = g(&format!("{what}: len()"), || it.len())?;
                ensure!(len == shape[a] - k, "{what}: len() = {len} before item {k}, {} remain", shape[a] - k);
                let got = g(&format!("{what}: next()"), || it.next())?;
                let Some(v) = got else {
                    fail!("{what}: ended after {k} items");
                };
                if d > 1 || true {
                    let items = g(&format!("{what}: item {k} contents"), || v.iter().copied().collect::<Vec<f64>>())?;
                    ensure!(items == expected_view(shape, a, k), "{what}: item {k} has elements {items:?}");
                }
            }
            for extra in 0..3 {
                let len = g(&format!("{what}: len() after exhaustion"), || it.len())?;
                ensure!(len == 0, "{what}: len() = {len} after exhaustion");
                let got = g(&format!("{what}: next() after exhaustion"), || it.next().is_some())?;
                ensure!(!got, "{what}: yields a view on call {extra} after the first None");
            }
        }
        // sum along the axis == naive oracle == sum of the views
        let got = g(&format!("Array::sum(Axis({a})) on shape {shape:?}"), || array.sum(Axis(a)))?;
        let want_shape: Vec<usize> = shape.iter().enumerate().filter(|(i, _)| *i != a).map(|(_, &l)| l).collect();
        ensure!(got.shape().as_ref() == want_shape.as_slice(), "sum(Axis({a})) of shape {shape:?} has shape {:?}", got.shape());
        let mut naive = vec![0.0f64; n / shape[a]];
        for idx in &odo {
            let reduced: Vec<usize> = idx.iter().enumerate().filter(|(i, _)| *i != a).map(|(_, &v)| v).collect();
            naive[flat(&want_shape, &reduced)] += (flat(shape, idx) + 1) as f64;
        }
        ensure!(got.as_slice() == naive.as_slice(), "sum(Axis({a})) of shape {shape:?} = {:?}, naive sum {naive:?}", got.as_slice());
        ensure!(got.as_slice() == sum_of_views.as_slice(), "sum(Axis({a})) of shape {shape:?} differs from the sum of its views");
        // the same on values of mixed sign, on an all-negative array and with zeros (sums are a
        // property of the positions, not of the sign of what is stored there)
        for variant in 0..3u8 {
            let value = |k: usize| -> f64 {
                let v = (k + 1) as f64;
                match variant {
                    0 => -v,
                    1 => match (k * 7 + 3) % 5 {
                        0 | 1 => -v,
                        2 => 0.0,
                        _ => v,
                    },
                    // sign decided by the position along the summed axis: whole views are negative
                    _ => {
                        if odo[k][a] % 2 == 0 {
                            -v
                        } else {
                            v
                        }
                    }
                }
            };
            let signed = Array::new((0..n).map(value).collect::<Vec<_>>(), shape.to_vec()).expect("shape fits");
            let got = g(&format!("Array::sum(Axis({a})) on signed values, shape {shape:?}"), || signed.sum(Axis(a)))?;
            let mut naive = vec![0.0f64; n / shape[a]];
            for idx in &odo {
                let reduced: Vec<usize> = idx.iter().enumerate().filter(|(i, _)| *i != a).map(|(_, &v)| v).collect();
                naive[flat(&want_shape, &reduced)] += value(flat(shape, idx));
            }
            ensure!(got.as_slice() == naive.as_slice(), "sum(Axis({a})) of shape {shape:?} with signed values (variant {variant}) = {:?}, naive sum {naive:?}", got.as_slice());
        }
    }

    // --- FrequenciesIter: count, len, values
    {
        let scs = Scs::new(array.as_slice().to_vec(), shape.clone()).expect("shape fits");
        let mut it = scs.iter_frequencies();
        for (k, idx) in odo.iter().enumerate() {
            let len = g("FrequenciesIter::len", || it.len())?;
            ensure!(len == n - k, "shape {shape:?}: FrequenciesIter::len() = {len} before item {k}");
            let got = g("FrequenciesIter::next", || it.next())?;
            let Some(got) = got else {
                fail!("shape {shape:?}: iter_frequencies ended after {k} items");
            };
            ensure!(got.len() == d, "frequency vector length");
            for j in 0..d {
                if shape[j] > 1 {
                    let want = idx[j] as f64 / (shape[j] - 1) as f64;
                    ensure!(got[j] == want, "shape {shape:?}: frequency {j} at {idx:?} = {}, expected {want}", got[j]);
                }
            }
        }
        for _ in 0..3 {
            let len = g("FrequenciesIter::len after exhaustion", || it.len())?;
            ensure!(len == 0, "shape {shape:?}: FrequenciesIter::len() = {len} after exhaustion");
            ensure!(g("FrequenciesIter::next", || it.next())?.is_none(), "iter_frequencies not fused");
        }
    }

    let mut lens = shape.clone();
    lens.sort();
    lens.dedup();
    let unequal = d >= 2 && lens.len() >= 2;
    let mut pass = Pass::new().nontrivial(unequal || d == 1);
    pass.add_label(format!("axes={d}"));
    if unequal {
        pass.add_label("unequal-lengths");
    }
    if shape.contains(&1) {
        pass.add_label("has-length-1-axis");
    }
    Ok(pass)
}

// ---------------------------------------------------------------------------------------------
// call histories

#[derive(Clone, Copy, Debug, Serialize, Deserialize, PartialEq)]
pub enum Op {
    Next,
    Len,
    SizeHint,
    /// clone the iterator (where the type supports it) and continue on the clone
    Fork,
    /// Iterator::nth(n): skips n items and returns the next one (an override may take a shortcut)
    Nth(u8),
    /// Iterator::last-free probes of adaptors built on the remaining items: count of `by_ref().skip(n)`
    SkipCount(u8),
}

#[derive(Clone, Copy, Debug, Serialize, Deserialize, PartialEq)]
pub enum Which {
    View,
    Axis,
    Indices,
    Frequencies,
}

#[derive(Clone, Debug, Serialize, Deserialize)]
pub struct History {
    pub shape: Vec<usize>,
    pub which: Which,
    pub axis_draw: u16,
    pub pos_draw: u16,
    pub ops: Vec<Op>,
}

fn history_strategy(max_len: usize) -> impl Strategy<Value = History> {
    (
        shape_strategy(1, 5, 1, max_len, 600),
        prop_oneof![3 => Just(Which::View), 1 => Just(Which::Axis), 1 => Just(Which::Indices), 1 => Just(Which::Frequencies)],
        any::<u16>(),
        any::<u16>(),
        prop::collection::vec(prop_oneof![6 => Just(Op::Next), 2 => Just(Op::Len), 1 => Just(Op::SizeHint), 1 => Just(Op::Fork), 1 => (0u8..12).prop_map(Op::Nth), 1 => (0u8..12).prop_map(Op::SkipCount)], 0..80),
        0usize..6,
    )
        .prop_map(|(shape, which, axis_draw, pos_draw, mut ops, tail)| {
            // make sure a good share of histories run past exhaustion
            for _ in 0..tail {
                ops.push(Op::Next);
                ops.push(Op::Len);
            }
            History {
                shape,
                which,
                axis_draw,
                pos_draw,
                ops,
            }
        })
}

/// Generic interpreter: runs the ops against `it`, comparing with the expected item list.
fn interpret<I, T>(what: &str, mut it: I, fork: Option<&dyn Fn(&I) -> I>, expected: &[T], ops: &[Op], same: &dyn Fn(&I::Item, &T) -> bool) -> Result<(usize, usize), Failure>
where
    I: ExactSizeIterator,
    I::Item: std::fmt::Debug,
    T: std::fmt::Debug,
{
    let mut pos = 0usize;
    let mut after_end = 0usize;
    for (step, op) in ops.iter().enumerate() {
        let remaining = expected.len() - pos.min(expected.len());
        match op {
            Op::Next => {
                let got = g(&format!("{what}: next() at step {step}"), || it.next())?;
                if pos < expected.len() {
                    match &got {
                        Some(x) if same(x, &expected[pos]) => {}
                        other => fail!("{what}: step {step}: next() = {other:?}, expected Some({:?})", expected[pos]),
                    }
                    pos += 1;
                } else {
                    ensure!(got.is_none(), "{what}: step {step}: next() = {got:?} after exhaustion ({after_end} earlier calls past the end)");
                    after_end += 1;
                }
            }
            Op::Len => {
                let len = g(&format!("{what}: len() at step {step}"), || it.len())?;
                ensure!(len == remaining, "{what}: step {step}: len() = {len}, but {remaining} items remain");
            }
            Op::SizeHint => {
                let hint = g(&format!("{what}: size_hint() at step {step}"), || it.size_hint())?;
                ensure!(hint == (remaining, Some(remaining)), "{what}: step {step}: size_hint() = {hint:?}, but {remaining} items remain");
            }
            Op::Fork => {
                if let Some(f) = fork {
                    it = g(&format!("{what}: clone at step {step}"), || f(&it))?;
                }
            }
            Op::Nth(k) => {
                let k = *k as usize;
                let got = g(&format!("{what}: nth({k}) at step {step}"), || it.nth(k))?;
                if pos + k < expected.len() {
                    match &got {
                        Some(x) if same(x, &expected[pos + k]) => {}
                        other => fail!("{what}: step {step}: nth({k}) = {other:?}, expected Some({:?})", expected[pos + k]),
                    }
                    pos += k + 1;
                } else {
                    ensure!(got.is_none(), "{what}: step {step}: nth({k}) = {got:?} with only {remaining} items left");
                    pos = expected.len();
                    after_end += 1;
                }
            }
            Op::SkipCount(k) => {
                let k = *k as usize;
                let n = g(&format!("{what}: by_ref().skip({k}).count() at step {step}"), || it.by_ref().skip(k).count())?;
                ensure!(n == remaining.saturating_sub(k), "{what}: step {step}: skip({k}).count() = {n} with {remaining} items left");
                pos = expected.len();
            }
        }
    }
    Ok((pos, after_end))
}

fn eval_history(_ctx: &Ctx, h: &History) -> Verdict {
    let shape = &h.shape;
    let d = shape.len();
    let array = distinct_array(shape);
    let axis = crate::engine::pick_idx(h.axis_draw, d);
    let pos = crate::engine::pick_idx(h.pos_draw, shape[axis]);
    let (consumed, after_end) = match h.which {
        Which::View => {
            let want = expected_view(shape, axis, pos);
            let view = array.get_axis(Axis(axis), pos).ok_or_else(|| Failure::new("get_axis returned None in range"))?;
            let what = format!("view::Iter (shape {shape:?}, axis {axis}, position {pos})");
            let it = g(&what, || view.iter())?;
            interpret(&what, it, Some(&|i| i.clone()), &want, &h.ops, &|a: &&f64, b: &f64| **a == *b)?
        }
        Which::Axis => {
            let want: Vec<Vec<f64>> = (0..shape[axis]).map(|p| expected_view(shape, axis, p)).collect();
            let what = format!("AxisIter (shape {shape:?}, axis {axis})");
            let it = array.iter_axis(Axis(axis));
            interpret(&what, it, None, &want, &h.ops, &|a, b: &Vec<f64>| {
                guard(|| a.iter().copied().collect::<Vec<f64>>()).map(|v| &v == b).unwrap_or(false)
            })?
        }
        Which::Indices => {
            let want = odometer(shape);
            let what = format!("IndicesIter (shape {shape:?})");
            interpret(&what, array.iter_indices(), None, &want, &h.ops, &|a: &Vec<usize>, b: &Vec<usize>| a == b)?
        }
        Which::Frequencies => {
            let want = odometer(shape);
            let scs = Scs::new(array.as_slice().to_vec(), shape.clone()).expect("fits");
            let what = format!("FrequenciesIter (shape {shape:?})");
            let shape2 = shape.clone();
            interpret(&what, scs.iter_frequencies(), None, &want, &h.ops, &move |a: &Vec<f64>, b: &Vec<usize>| {
                a.len() == b.len() && a.iter().zip(b).zip(&shape2).all(|((f, i), n)| *n == 1 || *f == *i as f64 / (*n - 1) as f64)
            })?
        }
    };
    let mut pass = Pass::new()
        .label(format!("{:?}", h.which))
        .label(format!("calls-after-end={}", after_end.min(3)))
        .nontrivial(after_end >= 2);
    if consumed > 0 && after_end == 0 {
        pass.add_label("partial");
    }
    if d == 1 {
        pass.add_label("one-axis");
    }
    Ok(pass)
}

pub fn check(ctx: &Ctx) -> Check {
    let max_len = ctx.tier.pick(5, 6);
    let parts: Vec<Box<dyn Part>> = vec![
        Box::new(EnumPart {
            name: "shapes",
            rule: "every shape with 1..5 axes and lengths 1..5 (thorough 1..6) plus every shape with 6..7 axes of lengths 1..2, distinct integer fill; all indices, all (axis, position) views (through get_axis and, in range, its panicking twin index_axis), all out-of-range requests; the same array built by Array::from_iter / from_element / from_zeros and written through as_mut_slice (wrong item counts refused by new and from_iter); Array::sum along every axis against the naive sum and the sum of views, on the positive fill and on three signed fills (all negative, mixed with zeros, sign by position along the summed axis); non-trivial = >=2 axes with unequal lengths, or a one-axis array; distinct by shape",
            exhaustive: true,
            cases: Box::new(move |_| {
                let mut v: Vec<ShapeCase> = all_shapes(5, 1, max_len).into_iter().map(|shape| ShapeCase { shape }).collect();
                // plus every shape with 6 and 7 axes of lengths 1..2 (and 6 axes of lengths 1..3 in the thorough tier)
                v.extend(all_shapes(7, 1, 2).into_iter().filter(|s| s.len() >= 6).map(|shape| ShapeCase { shape }));
                if max_len >= 6 {
                    v.extend(all_shapes(6, 1, 3).into_iter().filter(|s| s.len() == 6 && s.contains(&3)).map(|shape| ShapeCase { shape }));
                }
                v
            }),
            eval: Box::new(eval_shape),
        }),
        Box::new(EnumPart {
            name: "empty-shapes",
            rule: "every shape with 1..4 axes of lengths 0..3 that has a zero-length axis (arrays without elements, as `Array::new(vec![], shape)` accepts them): no index exists, every in-range (axis, position) view is empty, iter_axis yields as many empty views as the axis is long with a correct len(), sums are zeros of the reduced shape; nothing panics",
            exhaustive: true,
            cases: Box::new(|_| {
                let mut v = Vec::new();
                for d in 1..=4usize {
                    let mut shape = vec![0usize; d];
                    loop {
                        if shape.contains(&0) {
                            v.push(ShapeCase { shape: shape.clone() });
                        }
                        let mut k = d;
                        loop {
                            if k == 0 {
                                break;
                            }
                            k -= 1;
                            shape[k] += 1;
                            if shape[k] <= 3 {
                                break;
                            }
                            shape[k] = 0;
                            if k == 0 {
                                k = usize::MAX;
                                break;
                            }
                        }
                        if k == usize::MAX {
                            break;
                        }
                    }
                }
                v
            }),
            eval: Box::new(eval_empty_shape),
        }),
        Box::new(EnumPart {
            name: "large-shapes",
            rule: "arrays of 1 025 .. 8 193 elements in 1..4 axes (sizes beside 1024 / 4096 / 8192, long and short leading axes): the same complete sweep of indices, views, lengths and sums as in `shapes`",
            exhaustive: false,
            cases: Box::new(|ctx: &Ctx| {
                let mut v = vec![vec![1025usize], vec![33, 32], vec![2, 2049], vec![17, 17, 15], vec![65, 64]];
                if ctx.tier == crate::engine::Tier::Thorough {
                    v.extend([vec![4097], vec![3, 2731], vec![2, 4099], vec![9, 8, 8, 9], vec![8193]]);
                }
                v.into_iter().map(|shape| ShapeCase { shape }).collect()
            }),
            eval: Box::new(eval_shape),
        }),
        Box::new(RandomPart {
            name: "histories",
            rule: "random call histories (next/len/size_hint/clone/nth/skip) on view::Iter, AxisIter, IndicesIter, FrequenciesIter over random shapes (1..5 axes, lengths 1..6), interpreted against the expected item list; non-trivial = >=2 calls of next() after exhaustion; distinct by (shape, iterator, history)",
            cases: ctx.tier.pick(100_000, 10_000_000),
            strategy: Box::new(|| history_strategy(6).boxed()),
            eval: Box::new(eval_history),
        }),
    ];
    Check {
        parts,
        level: "exploration",
        assumptions: vec!["the harness's own odometer defines row-major order", "panics are caught with catch_unwind; a panic where the API promises None/Some is a violation"],
        post: None,
    }
}
