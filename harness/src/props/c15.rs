//! C15 — npy output conforms to NPY 1.0; every supported numpy dtype is read exactly.

use std::path::Path;

use proptest::prelude::*;
use serde::{Deserialize, Serialize};

use sfs_core::Array;

use crate::{
    cli::{self, Input},
    engine::{guard, pick_idx, Ctx, EnumPart, Failure, Part, Pass, RandomPart, Verdict},
    gen::{shapes::elements, values::zoo_bits},
    model::npy::{self, Dtype, Order, ALL_DTYPES},
    props::Check,
};

pub fn python() -> Option<&'static str> {
    static PY: std::sync::OnceLock<Option<&'static str>> = std::sync::OnceLock::new();
    *PY.get_or_init(|| {
        ["/usr/local/bin/python3-vt", "/opt/veriftools/pyvenv/bin/python3", "python3-vt"].into_iter().find(|p| {
            std::process::Command::new(p)
                .args(["-c", "import numpy"])
                .stdout(std::process::Stdio::null())
                .stderr(std::process::Stdio::null())
                .status()
                .map(|s| s.success())
                .unwrap_or(false)
        })
    })
}

pub fn lib_write_npy(shape: &[usize], bits: &[u64]) -> Result<Vec<u8>, Failure> {
    let values: Vec<f64> = bits.iter().map(|b| f64::from_bits(*b)).collect();
    let array = Array::new(values, shape.to_vec()).map_err(|e| Failure::new(format!("Array::new: {e}")))?;
    let mut out = Vec::new();
    match guard(|| array.write_npy(&mut out)) {
        Ok(Ok(())) => Ok(out),
        Ok(Err(e)) => Err(Failure::new(format!("write_npy of shape {shape:?} failed: {e}"))),
        Err(p) => Err(Failure::new(format!("write_npy of shape {shape:?}: {p}"))),
    }
}

pub fn lib_read_npy(bytes: &[u8]) -> Result<Result<(Vec<usize>, Vec<f64>), String>, Failure> {
    guard(|| Array::read_npy(bytes).map(|a| (a.shape().as_ref().to_vec(), a.as_slice().to_vec())).map_err(|e| e.to_string()))
        .map_err(|p| Failure::new(format!("read_npy: {p}")))
}

fn unpadded_len(shape: &[usize]) -> usize {
    // magic(6) + version(2) + length(2) + the dict text as sfs formats it
    let shape_fmt = shape.iter().map(|x| x.to_string()).collect::<Vec<_>>().join(", ");
    10 + format!("{{'descr': '<f8', 'fortran_order': False, 'shape': ({shape_fmt},), }}").len()
}

#[derive(Clone, Debug, Serialize, Deserialize)]
pub struct WriterCase {
    pub shape: Vec<usize>,
    pub bits: Vec<u64>,
}

fn check_written(bytes: &[u8], shape: &[usize], bits: &[u64], what: &str) -> Result<(), Failure> {
    let (got_shape, got_bits) = npy::validate_sfs_output(bytes).map_err(|e| Failure::new(format!("{what} for shape {shape:?} is not a conforming NPY 1.0 '<f8' C-order file: {e} (first bytes: {:?})", String::from_utf8_lossy(&bytes[..bytes.len().min(160)]))))?;
    ensure!(got_shape == shape, "{what}: header shape {got_shape:?}, array shape {shape:?}");
    ensure!(got_bits == bits, "{what} for shape {shape:?}: payload differs bitwise from the array");
    Ok(())
}

fn eval_writer(_ctx: &Ctx, case: &WriterCase) -> Verdict {
    let bytes = lib_write_npy(&case.shape, &case.bits)?;
    check_written(&bytes, &case.shape, &case.bits, "Array::write_npy output")?;
    // and sfs reads its own output back bit-identically
    match lib_read_npy(&bytes)? {
        Ok((shape, values)) => {
            ensure!(shape == case.shape, "read back shape {shape:?}");
            ensure!(values.iter().map(|v| v.to_bits()).eq(case.bits.iter().copied()), "read back values differ bitwise");
        }
        Err(e) => fail!("sfs cannot read the npy file it wrote for shape {:?}: {e}", case.shape),
    }
    let residue = unpadded_len(&case.shape) % 64;
    let mut pass = Pass::new().nontrivial(case.shape.len() >= 2 || matches!(residue, 0 | 1 | 63));
    pass.add_label(format!("residue={residue:02}"));
    pass.add_label(format!("axes={}", case.shape.len().min(9)));
    Ok(pass)
}

pub fn residue_cases() -> Vec<WriterCase> {
    let mut out = Vec::new();
    for d in 1..=24usize {
        for e in 0..=4usize {
            let mut shape = vec![1usize; d];
            shape[0] = [2, 10, 100, 1000, 1000][e];
            if e == 4 {
                if d >= 2 {
                    shape[d - 1] = 10;
                } else {
                    shape[0] = 10000;
                }
            }
            let n = elements(&shape);
            let bits = (0..n as u64).map(|i| ((crate::engine::splitmix64(i) % 1000) as f64 * 0.25).to_bits()).collect();
            out.push(WriterCase { shape, bits });
        }
    }
    out
}

fn writer_strategy() -> impl Strategy<Value = WriterCase> {
    // mostly length-1 axes; a few axes carry the digits
    (
        1usize..=24,
        prop::collection::vec((any::<u16>(), prop_oneof![3 => 1usize..=9, 2 => 10usize..=99, 1 => 100usize..=999, 1 => 1000usize..=2500]), 0..=3),
        prop::collection::vec(zoo_bits(), 64),
    )
        .prop_map(|(d, big, pool)| {
            let mut shape = vec![1usize; d];
            for (pos, len) in big {
                let i = pick_idx(pos, d);
                shape[i] = len;
            }
            while elements(&shape) > 20_000 {
                let (i, _) = shape.iter().enumerate().max_by_key(|(_, &v)| v).unwrap();
                shape[i] = (shape[i] / 10).max(1);
            }
            let n = elements(&shape);
            let bits = (0..n).map(|i| pool[i % pool.len()]).collect();
            WriterCase { shape, bits }
        })
}

// ---------------------------------------------------------------------------------------------
// reader

#[derive(Clone, Debug, Serialize, Deserialize)]
pub struct Spelling {
    pub quote: char,
    pub colon_spaces: (usize, usize),
    pub comma_spaces: (usize, usize),
    pub key_order: [usize; 3],
    pub trailing_comma: bool,
    pub tuple_space: usize,
    pub tuple_trailing_comma: bool,
    pub open_space: usize,
    pub align: usize,
}

impl Spelling {
    pub fn numpy() -> Self {
        Spelling {
            quote: '\'',
            colon_spaces: (0, 1),
            comma_spaces: (0, 1),
            key_order: [0, 1, 2],
            trailing_comma: true,
            tuple_space: 1,
            tuple_trailing_comma: false,
            open_space: 0,
            align: 64,
        }
    }

    pub fn dict(&self, descr: &str, fortran: bool, shape: &[usize]) -> String {
        let q = self.quote;
        let sp = |n: usize| " ".repeat(n);
        let colon = format!("{}:{}", sp(self.colon_spaces.0), sp(self.colon_spaces.1));
        let comma = format!("{},{}", sp(self.comma_spaces.0), sp(self.comma_spaces.1));
        let tuple = match shape.len() {
            1 => format!("({},)", shape[0]),
            _ => {
                let inner = shape.iter().map(|s| s.to_string()).collect::<Vec<_>>().join(&format!(",{}", sp(self.tuple_space)));
                if self.tuple_trailing_comma {
                    format!("({inner},)")
                } else {
                    format!("({inner})")
                }
            }
        };
        let entries = [
            format!("{q}descr{q}{colon}{q}{descr}{q}"),
            format!("{q}fortran_order{q}{colon}{}", if fortran { "True" } else { "False" }),
            format!("{q}shape{q}{colon}{tuple}"),
        ];
        let mut body = self.key_order.iter().map(|&i| entries[i].clone()).collect::<Vec<_>>().join(&comma);
        if self.trailing_comma {
            body.push_str(&comma);
        }
        format!("{{{}{body}}}", sp(self.open_space))
    }
}

fn spelling_strategy() -> impl Strategy<Value = Spelling> {
    (
        prop_oneof![Just('\''), Just('"')],
        (0usize..=2, 0usize..=2),
        (0usize..=2, 0usize..=2),
        prop_oneof![Just([0, 1, 2]), Just([0, 2, 1]), Just([1, 0, 2]), Just([1, 2, 0]), Just([2, 0, 1]), Just([2, 1, 0])],
        any::<bool>(),
        0usize..=2,
        any::<bool>(),
        0usize..=1,
        prop_oneof![3 => Just(64usize), 1 => Just(16usize)],
    )
        .prop_map(|(quote, colon_spaces, comma_spaces, key_order, trailing_comma, tuple_space, tuple_trailing_comma, open_space, align)| Spelling {
            quote,
            colon_spaces,
            comma_spaces,
            key_order,
            trailing_comma,
            tuple_space,
            tuple_trailing_comma,
            open_space,
            align,
        })
}

#[derive(Clone, Debug, Serialize, Deserialize)]
pub struct ReaderCase {
    pub dtype: Dtype,
    pub order: Order,
    pub version: u8,
    pub shape: Vec<usize>,
    pub bits: Vec<u64>,
    pub spelling: Option<Spelling>,
}

pub fn boundary_bits(dtype: Dtype) -> Vec<u64> {
    let mask = if dtype.size() == 8 { u64::MAX } else { (1u64 << (8 * dtype.size())) - 1 };
    let mut v: Vec<u64> = match dtype {
        Dtype::F8 => [0.0f64, -0.0, 1.0, -1.0, 0.1, f64::MIN_POSITIVE, 5e-324, f64::MAX, f64::MIN, f64::INFINITY, f64::NEG_INFINITY, f64::NAN, 1e300, 123456.789]
            .iter()
            .map(|x| x.to_bits())
            .chain([0x7ff8_0000_dead_beef, 0xfff4_0000_0000_0001])
            .collect(),
        Dtype::F4 => [0.0f32, -0.0, 1.0, -1.0, 0.1, f32::MIN_POSITIVE, 1e-45, f32::MAX, f32::MIN, f32::INFINITY, f32::NEG_INFINITY, f32::NAN, 16777217.0, 3.4e38]
            .iter()
            .map(|x| x.to_bits() as u64)
            .chain([0x7fc0_beef, 0xffa0_0001])
            .collect(),
        _ => {
            let bits = 8 * dtype.size() as u32;
            let signed = matches!(dtype, Dtype::I1 | Dtype::I2 | Dtype::I4 | Dtype::I8);
            let mut v = vec![0u64, 1, 2, mask, mask - 1, 1u64 << (bits - 1), (1u64 << (bits - 1)) - 1, (1u64 << (bits - 1)) + 1, 0x55, 100];
            if bits == 64 {
                v.extend([(1u64 << 53) - 1, 1u64 << 53, (1u64 << 53) + 1, (1u64 << 53) + 3, (1u64 << 62) + 1, u64::MAX - 1024, 0x8000_0000_0000_0401]);
                if signed {
                    v.extend([(-(1i64 << 53) - 1) as u64, (-(1i64 << 53) + 1) as u64, (-3i64) as u64, i64::MIN as u64 + 1]);
                }
            }
            v
        }
    };
    for b in v.iter_mut() {
        *b &= mask;
    }
    v
}

fn build_file(case: &ReaderCase, fortran: bool, descr_override: Option<&str>) -> Vec<u8> {
    let descr = descr_override.map(|s| s.to_string()).unwrap_or_else(|| npy::descr(case.dtype, case.order));
    let (dict, align) = match &case.spelling {
        None => (npy::numpy_dict(&descr, fortran, &case.shape), 64),
        Some(s) => (s.dict(&descr, fortran, &case.shape), s.align),
    };
    let mut out = npy::wrap_header(&dict, case.version, align);
    for b in &case.bits {
        npy::encode_element(case.dtype, case.order, *b, &mut out);
    }
    out
}

fn eval_reader(_ctx: &Ctx, case: &ReaderCase) -> Verdict {
    let bytes = build_file(case, false, None);
    // the file must be valid by the harness's own strict parser first (guards the generator)
    let parsed = npy::parse_header(&bytes).map_err(|e| Failure::new(format!("harness generator produced a header its own parser rejects: {e}")))?;
    ensure!(parsed.shape == case.shape, "generator self-check: shape");
    let what = format!("{} v{}.0 shape {:?}{}", npy::descr(case.dtype, case.order), case.version, case.shape, if case.spelling.is_some() { " (spelling variant)" } else { "" });
    match lib_read_npy(&bytes)? {
        Ok((shape, values)) => {
            ensure!(shape == case.shape, "{what}: read shape {shape:?}");
            ensure!(values.len() == case.bits.len(), "{what}: read {} values, file has {}", values.len(), case.bits.len());
            for (i, (got, bits)) in values.iter().zip(&case.bits).enumerate() {
                let want = npy::bits_to_f64(case.dtype, *bits);
                let same = if want.is_nan() {
                    got.is_nan() && (case.dtype != Dtype::F8 || got.to_bits() == want.to_bits())
                } else {
                    got.to_bits() == want.to_bits()
                };
                ensure!(same, "{what}: element {i} with raw bits {bits:#x} read as {got:?} ({:#x}), numpy's float64 conversion is {want:?} ({:#x})", got.to_bits(), want.to_bits());
            }
        }
        Err(e) => fail!("{what}: rejected a valid file: {e}; header {:?}", parsed.header_text),
    }
    // the same bytes through buffered readers whose buffer ends inside a value
    {
        let slice_result = lib_read_npy(&bytes)?;
        for cap in [1usize, 3, 7, 9, 13, 100, 4099] {
            let data = bytes.clone();
            let got = guard(move || {
                let reader = std::io::BufReader::with_capacity(cap, std::io::Cursor::new(data));
                Array::read_npy(reader).map(|a| (a.shape().as_ref().to_vec(), a.as_slice().to_vec())).map_err(|e| e.to_string())
            })
            .map_err(|p| Failure::new(format!("read_npy through BufReader({cap}): {p}")))?;
            let same = match (&got, &slice_result) {
                (Ok((s1, v1)), Ok((s2, v2))) => s1 == s2 && v1.len() == v2.len() && v1.iter().zip(v2).all(|(a, b)| a.to_bits() == b.to_bits()),
                (Err(_), Err(_)) => true,
                _ => false,
            };
            ensure!(same, "{what}: reading through a BufReader of capacity {cap} gives {:?}, reading from a slice gives {:?}", got.as_ref().map(|(s, v)| (s.clone(), v.len())), slice_result.as_ref().map(|(s, v)| (s.clone(), v.len())));
        }
    }
    // the same file marked Fortran-ordered must be rejected
    let fortran = build_file(case, true, None);
    if let Ok((shape, _)) = lib_read_npy(&fortran)? {
        fail!("{what}: a fortran_order: True file was accepted (shape {shape:?})");
    }
    let distinct_repr = case.bits.iter().any(|b| *b > 127);
    let mut pass = Pass::new().nontrivial(distinct_repr);
    pass.add_label(format!("{}-v{}", npy::descr(case.dtype, case.order), case.version));
    if case.spelling.is_some() {
        pass.add_label("spelling-variant");
    }
    Ok(pass)
}

fn matrix_cases() -> Vec<ReaderCase> {
    let mut out = Vec::new();
    for dtype in ALL_DTYPES {
        for order in [Order::Little, Order::Big] {
            for version in [1u8, 2, 3] {
                let bits = boundary_bits(dtype);
                let n = bits.len();
                // three shapes: flat, 2-D (padded with zeros), with a length-1 axis
                out.push(ReaderCase { dtype, order, version, shape: vec![n], bits: bits.clone(), spelling: None });
                let mut b2 = bits.clone();
                while b2.len() % 3 != 0 {
                    b2.push(0);
                }
                out.push(ReaderCase { dtype, order, version, shape: vec![b2.len() / 3, 3], bits: b2.clone(), spelling: None });
                out.push(ReaderCase { dtype, order, version, shape: vec![1, b2.len() / 3, 1, 3], bits: b2, spelling: None });
            }
        }
    }
    out
}

fn reader_strategy() -> impl Strategy<Value = ReaderCase> {
    (
        any::<u16>(),
        any::<bool>(),
        1u8..=3,
        prop_oneof![
            12 => prop::collection::vec(1usize..=5, 1..=4).boxed(),
            // data sections around 512 B .. 64 KiB (block-wise readers), every value compared
            1 => prop_oneof![Just(vec![1024usize]), Just(vec![2048]), Just(vec![4096]), Just(vec![8192]), Just(vec![1025]), Just(vec![64, 64]), Just(vec![3, 2731]), Just(vec![8193]), Just(vec![511]), Just(vec![2, 2, 128])].boxed(),
        ],
        prop::collection::vec((any::<u64>(), any::<u16>(), any::<bool>()), 1..=40),
        prop::option::weighted(0.7, spelling_strategy()),
    )
        .prop_map(|(d, big, version, mut shape, raw, spelling)| {
            let dtype = ALL_DTYPES[pick_idx(d, ALL_DTYPES.len())];
            let order = if big { Order::Big } else { Order::Little };
            while elements(&shape) > 600 && shape.iter().all(|l| *l <= 5) {
                shape.pop();
            }
            let n = elements(&shape);
            let bounds = boundary_bits(dtype);
            let mask = if dtype.size() == 8 { u64::MAX } else { (1u64 << (8 * dtype.size())) - 1 };
            let bits = (0..n)
                .map(|i| {
                    let (r, b, use_boundary) = raw[i % raw.len()];
                    if use_boundary {
                        bounds[pick_idx(b, bounds.len())]
                    } else {
                        crate::engine::splitmix64(r ^ i as u64) & mask
                    }
                })
                .collect();
            ReaderCase { dtype, order, version, shape, bits, spelling }
        })
}

#[derive(Clone, Debug, Serialize, Deserialize)]
pub struct RejectCase {
    pub descr: String,
    pub version: u8,
}

fn eval_reject(_ctx: &Ctx, case: &RejectCase) -> Verdict {
    let base = ReaderCase {
        dtype: Dtype::U1,
        order: Order::Little,
        version: case.version,
        shape: vec![2, 4],
        bits: vec![1; 8 * 16],
        spelling: None,
    };
    // payload long enough for any element size the bogus descr might suggest
    let mut bytes = build_file(&ReaderCase { bits: vec![], ..base.clone() }, false, Some(&case.descr));
    bytes.extend(std::iter::repeat(1u8).take(8 * 16));
    if let Ok((shape, values)) = lib_read_npy(&bytes)? {
        fail!("descr {:?} (unsupported) accepted: shape {shape:?}, {} values", case.descr, values.len());
    }
    Ok(Pass::new().nontrivial(true).label(format!("descr={}", case.descr)))
}

// ---------------------------------------------------------------------------------------------
// numpy differential (one python process per batch)

#[derive(Clone, Debug, Serialize, Deserialize)]
pub struct NumpyBatch {
    pub index: u64,
    pub files: usize,
}

const NUMPY_SCRIPT: &str = r#"
import sys, os, json, numpy as np
from numpy.lib import format as fmt
d = sys.argv[1]
mode = sys.argv[2]
out = {}
if mode == "load":
    # load files written by sfs, report shape, dtype, bytes
    for name in sorted(os.listdir(d)):
        if not name.startswith("w") or not name.endswith(".npy"): continue
        try:
            a = np.load(os.path.join(d, name), allow_pickle=False)
            out[name] = {"shape": list(a.shape), "dtype": a.dtype.str, "fortran": bool(a.flags.f_contiguous and not a.flags.c_contiguous), "hex": a.astype('<f8').tobytes().hex()}
        except Exception as e:
            out[name] = {"error": repr(e)}
else:
    # write files with real numpy from the spec in spec.json, and report the float64 conversion
    spec = json.load(open(os.path.join(d, "spec.json")))
    for item in spec:
        raw = bytes.fromhex(item["raw_le_hex"])
        base = np.frombuffer(raw, dtype=np.dtype(item["base_le"])).reshape(item["shape"])
        a = base.astype(np.dtype(item["descr"]))
        with open(os.path.join(d, item["name"]), "wb") as f:
            fmt.write_array(f, a, version=tuple(item["version"]))
        with np.errstate(all="ignore"):
            out[item["name"]] = {"hex": a.astype('<f8').tobytes().hex(), "shape": list(a.shape)}
json.dump(out, open(os.path.join(d, "result.json"), "w"))
"#;

fn run_python(ctx: &Ctx, py: &str, dir: &Path, mode: &str) -> Result<serde_json::Value, Failure> {
    std::fs::write(dir.join("np_script.py"), NUMPY_SCRIPT).expect("write script");
    let run = cli::run_bin(ctx, Path::new(py), &["np_script.py", ".", mode], Input::Null, dir, &[]);
    if !run.ok() {
        ctx.note_inconclusive(format!("numpy helper failed: {}", run.describe()));
        return Err(Failure::new("numpy helper failed (inconclusive)"));
    }
    let text = std::fs::read_to_string(dir.join("result.json")).map_err(|e| Failure::new(format!("numpy helper wrote no result: {e}")))?;
    serde_json::from_str(&text).map_err(|e| Failure::new(format!("numpy helper result is not JSON: {e}")))
}

fn hex(bytes: &[u8]) -> String {
    bytes.iter().map(|b| format!("{b:02x}")).collect()
}

fn eval_numpy(ctx: &Ctx, batch: &NumpyBatch) -> Verdict {
    let Some(py) = python() else {
        return Ok(Pass::new().label("numpy-absent"));
    };
    let dir = ctx.worker_dir(crate::engine::worker_id()).join(format!("np{}", batch.index));
    let _ = std::fs::remove_dir_all(&dir);
    std::fs::create_dir_all(&dir).expect("mkdir");
    let mut pass = Pass::new().nontrivial(true).label("numpy-present");

    // (1) files written by sfs must load in numpy to the same array
    let cases = {
        let all = residue_cases();
        let mut v = Vec::new();
        for i in 0..batch.files {
            v.push(all[((batch.index as usize) * batch.files + i) * 7 % all.len()].clone());
        }
        v
    };
    for (i, c) in cases.iter().enumerate() {
        std::fs::write(dir.join(format!("w{i:03}.npy")), lib_write_npy(&c.shape, &c.bits)?).expect("write");
    }
    let loaded = run_python(ctx, py, &dir, "load")?;
    for (i, c) in cases.iter().enumerate() {
        let r = &loaded[format!("w{i:03}.npy")];
        ensure!(r["error"].is_null(), "numpy.load rejects the file sfs wrote for shape {:?}: {}", c.shape, r["error"]);
        let shape: Vec<usize> = r["shape"].as_array().map(|a| a.iter().map(|v| v.as_u64().unwrap_or(0) as usize).collect()).unwrap_or_default();
        ensure!(shape == c.shape, "numpy.load of sfs output: shape {shape:?}, expected {:?}", c.shape);
        ensure!(r["dtype"] == "<f8", "numpy.load of sfs output: dtype {}", r["dtype"]);
        let want: Vec<u8> = c.bits.iter().flat_map(|b| b.to_le_bytes()).collect();
        ensure!(r["hex"].as_str() == Some(hex(&want).as_str()), "numpy.load of sfs output for shape {:?}: values differ", c.shape);
        pass.count("sfs-written files loaded by numpy", 1);
    }

    // (2) files written by real numpy must read in sfs to numpy's own float64 conversion
    let mut spec = Vec::new();
    let mut k = 0;
    for dtype in ALL_DTYPES {
        for order in [Order::Little, Order::Big] {
            let version = [1u8, 2, 3][(k + batch.index as usize) % 3];
            k += 1;
            let mut bits = boundary_bits(dtype);
            // add batch-specific pseudo-random values
            let mask = if dtype.size() == 8 { u64::MAX } else { (1u64 << (8 * dtype.size())) - 1 };
            for j in 0..6u64 {
                bits.push(crate::engine::splitmix64(batch.index * 1000 + j + k as u64) & mask);
            }
            while bits.len() % 2 != 0 {
                bits.push(0);
            }
            let mut raw = Vec::new();
            for b in &bits {
                npy::encode_element(dtype, Order::Little, *b, &mut raw);
            }
            let name = format!("n_{}_{}_{version}.npy", dtype.code(), if order == Order::Big { "be" } else { "le" });
            spec.push((
                serde_json::json!({
                    "name": name,
                    "raw_le_hex": hex(&raw),
                    "base_le": format!("<{}", dtype.code()),
                    "descr": npy::descr(dtype, order).replace('|', "<"),
                    "shape": [bits.len() / 2, 2],
                    "version": [version, 0],
                }),
                dtype,
                bits,
            ));
        }
    }
    std::fs::write(dir.join("spec.json"), serde_json::to_string(&spec.iter().map(|s| s.0.clone()).collect::<Vec<_>>()).unwrap()).expect("write spec");
    let written = run_python(ctx, py, &dir, "write")?;
    for (item, dtype, bits) in &spec {
        let name = item["name"].as_str().unwrap();
        let bytes = std::fs::read(dir.join(name)).map_err(|e| Failure::new(format!("numpy did not write {name}: {e}")))?;
        let want_hex = written[name]["hex"].as_str().unwrap_or("");
        match lib_read_npy(&bytes)? {
            Ok((shape, values)) => {
                ensure!(shape == vec![bits.len() / 2, 2], "{name}: sfs read shape {shape:?}");
                let got: Vec<u8> = values.iter().flat_map(|v| v.to_le_bytes()).collect();
                // NaN payloads of f4 may legitimately differ in the quiet bit; compare element-wise
                let want: Vec<u8> = (0..want_hex.len() / 2).map(|i| u8::from_str_radix(&want_hex[2 * i..2 * i + 2], 16).unwrap()).collect();
                ensure!(got.len() == want.len(), "{name}: value count differs");
                for (i, (g, w)) in got.chunks(8).zip(want.chunks(8)).enumerate() {
                    let gv = f64::from_le_bytes(g.try_into().unwrap());
                    let wv = f64::from_le_bytes(w.try_into().unwrap());
                    ensure!(g == w || (gv.is_nan() && wv.is_nan()), "{name} (written by numpy, dtype {:?}): element {i} read as {gv:?}, numpy astype('<f8') gives {wv:?}", dtype);
                }
                // and the harness's own conversion agrees with numpy (validates the oracle)
                for (i, (b, w)) in bits.iter().zip(want.chunks(8)).enumerate() {
                    let mine = npy::bits_to_f64(*dtype, *b);
                    let wv = f64::from_le_bytes(w.try_into().unwrap());
                    ensure!(mine.to_bits() == wv.to_bits() || (mine.is_nan() && wv.is_nan()), "ORACLE SELF-CHECK: harness conversion of {dtype:?} bits {b:#x} = {mine:?} but numpy gives {wv:?} (element {i})");
                }
                pass.count("numpy-written files read by sfs", 1);
            }
            Err(e) => fail!("{name}: sfs rejects a file written by numpy: {e}"),
        }
    }
    let _ = std::fs::remove_dir_all(&dir);
    Ok(pass)
}

// ---------------------------------------------------------------------------------------------
// CLI writer: sfs view -O npy

#[derive(Clone, Debug, Serialize, Deserialize)]
pub struct CliCase {
    pub shape: Vec<usize>,
    pub to_file: bool,
    /// put one value whose IEEE-754 bytes contain a line feed (0x0A) at this flat position, all
    /// other values free of 0x0A (binary data through a line-buffered stdout)
    #[serde(default)]
    pub line_feed_at: Option<usize>,
}

fn eval_cli(ctx: &Ctx, case: &CliCase) -> Verdict {
    let dir = ctx.worker_dir(crate::engine::worker_id());
    let n = elements(&case.shape);
    let mut values: Vec<f64> = (0..n as u64).map(|i| (crate::engine::splitmix64(i ^ 0xC15) % 4000) as f64 * 0.125).collect();
    if let Some(at) = case.line_feed_at {
        for (i, v) in values.iter_mut().enumerate() {
            *v = 1.0 + (i % 7) as f64; // 0x3FF0.., 0x4000.., 0x4008.. ...: no 0x0A byte
        }
        let at = at.min(n - 1);
        values[at] = [4106.0, 3.25, 2053.0][at % 3]; // 0x40B00A.., 0x400A.., 0x40A00A..
    }
    let spec = crate::model::spec::Spec::new(case.shape.clone(), values.clone());
    std::fs::write(dir.join("in.sfs"), crate::props::common::text_bytes_exact(&spec)).expect("write");
    let _ = std::fs::remove_file(dir.join("out.npy"));
    if case.to_file && n % 2 == 0 {
        // the output path already holds an earlier, longer npy file: it must be replaced, not patched
        let earlier = crate::props::common::npy_bytes(&crate::model::spec::Spec::new(vec![n + 40], vec![7.0; n + 40]));
        std::fs::write(dir.join("out.npy"), earlier).expect("write");
    }
    let huge_header = case.shape.len() > 20_000;
    let shown: Vec<usize> = case.shape.iter().copied().take(4).collect();
    let bytes = if case.to_file {
        let run = cli::sfs(ctx, &["view", "-O", "npy", "-o", "out.npy", "in.sfs"], Input::Null, &dir);
        if huge_header && !run.ok() {
            // the header does not fit format version 1.0: refused, and no spectrum left behind
            let left = std::fs::read(dir.join("out.npy")).unwrap_or_default();
            ensure!(run.clean_failure() && run.stdout.is_empty() && left.len() < 10, "view -O npy -o on {} axes ({shown:?}..) must be refused cleanly: {} ({} bytes in the output file)", case.shape.len(), run.describe(), left.len());
            return Ok(Pass::new().nontrivial(true).label("header-too-long-refused"));
        }
        ensure!(run.ok() && run.stdout.is_empty(), "view -O npy -o on {} axes ({shown:?}..): {}", case.shape.len(), cli::cut(&run.describe(), 300));
        std::fs::read(dir.join("out.npy")).map_err(|e| Failure::new(format!("no output file: {e}")))?
    } else {
        let run = cli::sfs(ctx, &["view", "-O", "npy", "in.sfs"], Input::Null, &dir);
        if huge_header && !run.ok() {
            ensure!(run.clean_failure() && run.stdout.is_empty(), "view -O npy on {} axes ({shown:?}..) must be refused cleanly with nothing on stdout: {}", case.shape.len(), cli::cut(&run.describe(), 300));
            return Ok(Pass::new().nontrivial(true).label("header-too-long-refused"));
        }
        ensure!(run.ok(), "view -O npy on {} axes ({shown:?}..): {}", case.shape.len(), cli::cut(&run.describe(), 300));
        run.stdout
    };
    let bits: Vec<u64> = values.iter().map(|v| v.to_bits()).collect();
    check_written(&bytes, &case.shape, &bits, "`sfs view -O npy` output")?;
    let residue = unpadded_len(&case.shape) % 64;
    Ok(Pass::new().nontrivial(true).label(format!("residue={residue:02}")).label(if !case.to_file { "stdout" } else if n % 2 == 0 { "-o onto an existing longer file" } else { "-o fresh file" }))
}

/// A valid numpy file whose data section begins and ends with a chosen byte, read by the binary.
#[derive(Clone, Debug, Serialize, Deserialize)]
pub struct CliReaderCase {
    pub dtype: Dtype,
    pub order: Order,
    pub edge: u8,
    /// header padded to a multiple of 16 (numpy < 1.14) instead of 64
    pub align16: bool,
    pub stdin: bool,
}

fn eval_cli_reader(ctx: &Ctx, case: &CliReaderCase) -> Verdict {
    let dir = ctx.worker_dir(crate::engine::worker_id());
    let size = case.dtype.size();
    // three elements; the first file byte of the first and the last file byte of the last are `edge`
    let element = |bytes: Vec<u8>| -> u64 {
        let mut v = 0u64;
        match case.order {
            Order::Big => bytes.iter().for_each(|b| v = v << 8 | *b as u64),
            _ => bytes.iter().rev().for_each(|b| v = v << 8 | *b as u64),
        }
        v
    };
    let mut first = vec![0x41u8; size];
    first[0] = case.edge;
    let mut last = vec![0x41u8; size];
    last[size - 1] = case.edge;
    let bits = vec![element(first), element(vec![0x3f; size]), element(last)];
    let rc = ReaderCase { dtype: case.dtype, order: case.order, version: 1, shape: vec![3], bits: bits.clone(), spelling: if case.align16 { Some(Spelling { align: 16, ..Spelling::numpy() }) } else { None } };
    let bytes = build_file(&rc, false, None);
    let parsed = npy::parse_header(&bytes).map_err(|e| Failure::new(format!("harness generator produced a header its own parser rejects: {e}")))?;
    ensure!(*bytes.last().unwrap() == case.edge && bytes[parsed.data_offset] == case.edge, "generator self-check: edge bytes");
    let want: Vec<u64> = bits.iter().map(|b| npy::bits_to_f64(case.dtype, *b).to_bits()).collect();
    if want.iter().any(|w| f64::from_bits(*w).is_nan()) {
        return Ok(Pass::new().label("skipped-nan"));
    }
    let what = format!("{} file of 3 elements whose data section begins and ends with byte {:#04x} (header aligned to {}), given {}", npy::descr(case.dtype, case.order), case.edge, if case.align16 { 16 } else { 64 }, if case.stdin { "on stdin" } else { "by path" });
    std::fs::write(dir.join("in.npy"), &bytes).expect("write");
    let run = if case.stdin { cli::sfs(ctx, &["view", "-O", "npy"], Input::Pipe(&bytes), &dir) } else { cli::sfs(ctx, &["view", "-O", "npy", "in.npy"], Input::Null, &dir) };
    ensure!(run.ok(), "`sfs view -O npy` rejects a valid {what}: {}", cli::cut(&run.describe(), 300));
    check_written(&run.stdout, &[3], &want, &format!("`sfs view -O npy` of a {what}"))?;
    // and as text at full precision
    let run = if case.stdin { cli::sfs(ctx, &["view", "--precision", "17"], Input::Pipe(&bytes), &dir) } else { cli::sfs(ctx, &["view", "--precision", "17", "in.npy"], Input::Null, &dir) };
    ensure!(run.ok(), "`sfs view` rejects a valid {what}: {}", cli::cut(&run.describe(), 300));
    let text = cli::parse_text_spectrum(&run.stdout_str()).map_err(|e| Failure::new(format!("`sfs view` of a {what}: unparsable output: {e}")))?;
    ensure!(text.shape == vec![3] && text.values.len() == 3, "`sfs view` of a {what}: shape {:?}", text.shape);
    for (i, (g, w)) in text.values.iter().zip(&want).enumerate() {
        let w = f64::from_bits(*w);
        ensure!((g - w).abs() <= 0.5e-17 + 4.0 * f64::EPSILON * w.abs() || (g.is_infinite() && *g == w), "`sfs view --precision 17` of a {what}: element {i} printed as {}, the file holds {w:?}", text.tokens[i]);
    }
    Ok(Pass::new().nontrivial(true).label(format!("edge-byte={:#04x}", case.edge)))
}

pub fn npy_fuzz_seeds() -> Vec<Vec<u8>> {
    let mut v: Vec<Vec<u8>> = matrix_cases().iter().step_by(3).map(|c| build_file(c, false, None)).collect();
    v.extend(residue_cases().iter().step_by(17).filter_map(|c| lib_write_npy(&c.shape, &c.bits).ok()).filter(|b| b.len() <= 2048));
    v
}

pub fn check(ctx: &Ctx) -> Check {
    let batches = ctx.tier.pick(8u64, 40);
    let parts: Vec<Box<dyn Part>> = vec![
        Box::new(EnumPart {
            name: "writer-residues",
            rule: "shapes with 1..24 axes whose digit widths sweep every residue of the unpadded header length modulo 64 (120 shapes, all 64 residues by construction): strict independent validator (magic, version 1.0, LE u16 length, data offset = 0 mod 64, ASCII, newline-terminated, space padding, Python-literal dict with exactly descr '<f8' / fortran_order False / exact shape tuple, exactly prod(shape) LE doubles bitwise equal), and sfs re-reads its own bytes; distinct by shape",
            exhaustive: true,
            cases: Box::new(|_| residue_cases()),
            eval: Box::new(eval_writer),
        }),
        Box::new(RandomPart {
            name: "writer-random",
            rule: "random shapes (1..24 axes, mostly length 1, up to three multi-digit axes) x f64 zoo values (NaN payloads, +-inf, subnormals); same validator; non-trivial = >=2 axes or residue in {0,1,63}",
            cases: ctx.tier.pick(8000, 300_000),
            strategy: Box::new(|| writer_strategy().boxed()),
            eval: Box::new(eval_writer),
        }),
        Box::new(EnumPart {
            name: "reader-matrix",
            rule: "full matrix dtype(10) x byte order(<,>; | for 1-byte types) x version(1.0,2.0,3.0) x 3 shapes with boundary values of every type (min, max, +-1, 2^53+-1 for 64-bit, f4 subnormal/NaN/inf), laid out exactly as numpy writes; oracle = independent conversion to float64 (64-bit integers as hi*2^32+lo, one rounding); same file with fortran_order True must be rejected",
            exhaustive: true,
            cases: Box::new(|_| matrix_cases()),
            eval: Box::new(eval_reader),
        }),
        Box::new(RandomPart {
            name: "reader-random",
            rule: "random dtype/order/version/shape/values (one file in thirteen with 511 .. 8 193 values: data sections around 512 B .. 64 KiB) with header spelling variants (quote character, 0..2 spaces around ':' and ',', key order, trailing comma, tuple spacing, 16- or 64-byte alignment); non-trivial = some element not identically representable in every dtype (raw value > 127)",
            cases: ctx.tier.pick(10_000, 600_000),
            strategy: Box::new(|| reader_strategy().boxed()),
            eval: Box::new(eval_reader),
        }),
        Box::new(EnumPart {
            name: "cli-reader-edge-bytes",
            rule: "valid numpy files of every supported dtype and byte order (three elements, header padded to 64 or to 16 bytes) whose data section begins and ends with one of the bytes 0x00, 0x09, 0x0a, 0x0b, 0x0c, 0x0d, 0x20, 0x23, 0x85, 0xa0, 0xff (blanks, line ends, the text format's `#`; thorough: every byte value), given to `sfs view` by path and on stdin: accepted, converted to '<f8' bit-exactly (strict validator on the output) and printed at 17 decimals with the values numpy's float64 conversion gives -- whatever the binary does to its input before handing it to the npy reader (sniffing, trimming) must leave a binary file alone",
            exhaustive: true,
            cases: Box::new(|ctx: &Ctx| {
                let mut v = Vec::new();
                // thorough: every byte value
                let edges: Vec<u8> = if ctx.tier == crate::engine::Tier::Thorough { (0..=255u8).collect() } else { vec![0x00u8, 0x09, 0x0a, 0x0b, 0x0c, 0x0d, 0x20, 0x23, 0x85, 0xa0, 0xff] };
                for dtype in ALL_DTYPES {
                    for order in [Order::Little, Order::Big] {
                        for (k, edge) in edges.iter().copied().enumerate() {
                            v.push(CliReaderCase { dtype, order, edge, align16: k % 2 == 0, stdin: (k / 2) % 2 == 0 });
                            if matches!(edge, 0x0a | 0x20) {
                                v.push(CliReaderCase { dtype, order, edge, align16: k % 2 != 0, stdin: (k / 2) % 2 != 0 });
                            }
                        }
                    }
                }
                v
            }),
            eval: Box::new(eval_cli_reader),
        }),
        Box::new(EnumPart {
            name: "reader-rejects",
            rule: "unsupported descriptors (<c16, |b1, <f2, <U3, |O, <i3, <f16, <M8[ns], |S4, |V8, <c8, >U1) in every header version must be rejected",
            exhaustive: true,
            cases: Box::new(|_| {
                let mut v = Vec::new();
                for d in ["<c16", "|b1", "<f2", "<U3", "|O", "<i3", "<f16", "<M8[ns]", "|S4", "|V8", "<c8", ">U1", ">f2", "<i16", "<u3"] {
                    for version in [1u8, 2, 3] {
                        v.push(RejectCase { descr: d.to_string(), version });
                    }
                }
                v
            }),
            eval: Box::new(eval_reject),
        }),
        Box::new(EnumPart {
            name: "numpy-differential",
            rule: "real numpy (python3-vt) as second oracle: numpy.load of files sfs wrote must return the same '<f8' array; files written by numpy.lib.format.write_array for every dtype/byte order/version must read in sfs to numpy's own astype('<f8'); also cross-checks the harness's conversion oracle against numpy; skipped (trivial) when numpy is absent",
            exhaustive: false,
            cases: Box::new(move |_| (0..batches).map(|index| NumpyBatch { index, files: 15 }).collect()),
            eval: Box::new(eval_numpy),
        }),
        Box::new(EnumPart {
            name: "cli-writer",
            rule: "`sfs view -O npy` to stdout and with -o on the residue-sweeping shapes, on 21 800 .. 21 830 axes of length 1 (headers at the edge of the 65 535 bytes NPY 1.0 can declare: a valid file or a clean refusal), plus spectra in which one value's bytes contain a line feed followed by more than 1 KiB of LF-free data (binary output through a line-buffered stdout): same validator",
            exhaustive: false,
            cases: Box::new(|ctx| {
                let step = ctx.tier.pick(2, 1);
                let mut v: Vec<CliCase> = residue_cases().into_iter().step_by(step).enumerate().map(|(i, c)| CliCase { shape: c.shape, to_file: i % 3 == 0, line_feed_at: None }).collect();
                // a value containing a 0x0A byte followed by more than 1 KiB of LF-free data
                for (shape, at) in [(vec![300usize], 0usize), (vec![300], 7), (vec![20, 20], 150), (vec![1500], 1000), (vec![9, 9, 9], 2), (vec![5000], 4096)] {
                    for to_file in [false, true] {
                        v.push(CliCase { shape: shape.clone(), to_file, line_feed_at: Some(at) });
                    }
                }
                // headers at the edge of what NPY 1.0 can declare (65 535 bytes): thousands of axes
                // of length 1 (first axis 1, 10 or 100): a valid file, or a refusal that writes nothing
                for axes in [21_800usize, 21_820, 21_821, 21_822, 21_823, 21_824, 21_825, 21_826, 21_827, 21_828, 21_830] {
                    for first in [1usize, 10, 100] {
                        let mut shape = vec![1usize; axes];
                        shape[0] = first;
                        v.push(CliCase { shape, to_file: axes % 2 == 0, line_feed_at: None });
                    }
                }
                v
            }),
            eval: Box::new(eval_cli),
        }),
    ];
    let mut parts = parts;
    parts.push(Box::new(crate::fuzzrun::FuzzPart {
        name: "libfuzzer-fz_npy",
        target: "fz_npy",
        rule: "coverage-guided (libFuzzer + ASan): bytes -> Array::read_npy with the independent parser as in-target oracle: an accepted file must be self-consistent, agree with the independent parser on shape, dtype, payload length and every converted value, and a file spelled exactly as numpy writes it must be accepted; corpus seeded with the dtype x order x version matrix; non-trivial/distinct = corpus units that reached new coverage",
        runs: ctx.tier.pick(0, 2_000_000),
        max_len: 2048,
        seeds: Box::new(|_| npy_fuzz_seeds()),
    }));
    Check {
        parts,
        level: "exploration",
        assumptions: vec![
            "NPY format as specified in numpy.lib.format (NEP 1); the harness's validator and numpy-layout writer are written from that text and cross-checked against real numpy 2.4 when present",
            "NaN payloads are compared bitwise for f8 and as NaN-ness for f4 (hardware conversion may set the quiet bit)",
        ],
        post: Some(Box::new(|report| {
            // every residue of the unpadded header length must have been exercised by the writer parts
            let mut seen = std::collections::BTreeSet::new();
            for p in &report.parts {
                if p.name.starts_with("writer") {
                    for l in p.labels.keys() {
                        if let Some(r) = l.strip_prefix("residue=") {
                            seen.insert(r.to_string());
                        }
                    }
                }
            }
            if seen.len() == 64 {
                Ok(serde_json::json!({"header_length_residues_mod_64_exercised": 64}))
            } else {
                Err(format!("only {} of 64 header-length residues were exercised", seen.len()))
            }
        })),
    }
}
