//! C10 — every record is counted once or reported skipped; strict mode; no partial output.

use proptest::prelude::*;
use serde::{Deserialize, Serialize};

use crate::{
    cli,
    engine::{Ctx, Part, Pass, RandomPart, Verdict},
    gen::callset::{callset_strategy, force_record_classes, make_selected_diploid, map_draw_strategy, resolve_map, CallSet, GenParams, Gt, MapSpec},
    model::create::create,
    props::{
        c02::{resolve_targets, target_draw_strategy},
        common::{container_strategy, parse_skipped, run_create, run_create_bytes, Container, CreateOpts, Projection, Transport},
        Check,
    },
};

#[derive(Clone, Debug, Serialize, Deserialize, PartialEq)]
pub enum Mode {
    Plain,
    Project { m: Vec<usize> },
}

#[derive(Clone, Debug, Serialize, Deserialize)]
pub struct Case {
    pub cs: CallSet,
    pub map: MapSpec,
    pub container: Container,
    pub mode: Mode,
    /// log verbosity of the strict run: 0 default, 1..3 = -v.., 4 = -q, 5 = -qq
    #[serde(default)]
    pub strict_verbosity: u8,
}

fn base_strategy(max_records: usize) -> impl Strategy<Value = (CallSet, MapSpec)> {
    let params = GenParams {
        max_records,
        missing_weight: 20,
        ..GenParams::default()
    };
    (callset_strategy(params), map_draw_strategy(12)).prop_map(|(mut cs, draw)| {
        let n = cs.samples.len();
        let map = resolve_map(&draw, n);
        let selected: Vec<bool> = map.assignment(n).iter().map(|a| a.is_some()).collect();
        force_record_classes(&mut cs, &selected);
        make_selected_diploid(&mut cs, &selected);
        (cs, map)
    })
}

fn strategy() -> impl Strategy<Value = Case> {
    (
        prop_oneof![4 => base_strategy(30).boxed(), 1 => base_strategy(1).boxed()],
        container_strategy(),
        target_draw_strategy(),
        prop::bool::weighted(0.4),
        prop_oneof![4 => Just(0u8), 1 => Just(1u8), 1 => Just(2u8), 1 => Just(3u8), 2 => Just(4u8), 2 => Just(5u8)],
    )
        .prop_map(|((cs, map), container, td, project, strict_verbosity)| {
            let mode = if project { Mode::Project { m: resolve_targets(&cs, &map, &td) } } else { Mode::Plain };
            Case { cs, map, container, mode, strict_verbosity }
        })
}

fn eval(ctx: &Ctx, case: &Case) -> Verdict {
    let dir = ctx.worker_dir(crate::engine::worker_id());
    let n_records = case.cs.records.len();
    let m = match &case.mode {
        Mode::Plain => None,
        Mode::Project { m } => Some(m.clone()),
    };
    let want = create(&case.cs, &case.map, m.as_deref());
    ensure!(want.first_error.is_none(), "generator bug: ploidy error");
    let opts = CreateOpts {
        map: Some(case.map.clone()),
        project: m.clone().map(|m| Projection { m, individuals: false }),
        precision: Some(12),
        ..Default::default()
    };
    let (run, argv) = run_create(ctx, &dir, "c10", &case.cs, &case.container, &opts, Transport::Path);
    let what = format!("`sfs {}` ({}, {n_records} records)", argv.join(" "), case.container.label());
    let got = cli::expect_spectrum(&run, &what)?;
    let stderr = run.stderr_str();
    let (x, y) = match parse_skipped(&stderr) {
        Some((x, y)) => {
            ensure!(y == n_records, "{what}: summary says {x}/{y} sites, the input has {n_records} records: {}", run.describe());
            (x, y)
        }
        None => (0, n_records),
    };
    let _ = y;
    ensure!(x == want.skipped, "{what}: {x} sites reported as skipped, the reference model skips {} of {n_records}: {}", want.skipped, cli::cut(&stderr, 300));
    let mass: f64 = got.values.iter().sum();
    let tol = match case.mode {
        Mode::Plain => 0.0,
        Mode::Project { .. } => got.values.len() as f64 * 0.5e-12 + 1e-9 * n_records as f64,
    };
    ensure!(
        (mass + x as f64 - n_records as f64).abs() <= tol,
        "{what}: mass of the spectrum ({mass}) + skipped sites ({x}) != records read ({n_records}); each counted record must contribute total weight exactly one"
    );

    // strict mode (not combinable with projection)
    if case.mode == Mode::Plain {
        let v = case.strict_verbosity;
        let strict = CreateOpts { strict: true, verbose: if v <= 3 { v } else { 0 }, quiet: if v >= 4 { v - 3 } else { 0 }, ..opts.clone() };
        let (srun, sargv) = run_create(ctx, &dir, "c10", &case.cs, &case.container, &strict, Transport::Path);
        let swhat = format!("`sfs {}`", sargv.join(" "));
        match want.first_skipped {
            Some(ri) => {
                let rec = &case.cs.records[ri];
                ensure!(srun.clean_failure(), "{swhat}: record {ri} would be skipped, strict mode must fail: {}", srun.describe());
                ensure!(srun.stdout.is_empty(), "{swhat}: a failing run must not write a spectrum: {}", srun.describe());
                let serr = srun.stderr_str();
                ensure!(
                    crate::props::common::names_site(&serr, &case.cs.contigs[rec.contig], rec.pos),
                    "{swhat}: strict mode must name the FIRST record that would be skipped, {}:{} (record {ri}): {}",
                    case.cs.contigs[rec.contig],
                    rec.pos,
                    srun.describe()
                );
            }
            None => {
                ensure!(srun.code == run.code && srun.stdout == run.stdout, "{swhat}: nothing would be skipped, output must be identical to the non-strict run: {} vs {}", srun.describe(), run.describe());
            }
        }
    }
    let mut pass = Pass::new().nontrivial(x >= 1 && mass >= 0.5);
    pass.add_label(match case.mode {
        Mode::Plain => "plain+strict",
        Mode::Project { .. } => "projection",
    });
    if case.mode == Mode::Plain {
        pass.add_label(format!("strict-run-verbosity={}", ["default", "-v", "-vv", "-vvv", "-q", "-qq"][case.strict_verbosity.min(5) as usize]));
    }
    if n_records == 1 {
        pass.add_label("single-record");
    }
    if n_records == 0 {
        pass.add_label("no-records");
    }
    if want.first_skipped.is_none() {
        pass.add_label("nothing-skipped");
    }
    pass.add_label(case.container.label());
    Ok(pass)
}

// ---------------------------------------------------------------------------------------------
// fault sweep: a fault at every record position

#[derive(Clone, Copy, Debug, Serialize, Deserialize, PartialEq)]
pub enum Fault {
    /// a non-diploid genotype in a selected sample (all containers)
    Ploidy,
    /// VCF line with too few columns
    TruncatedColumns,
    /// VCF line with a non-numeric POS
    BadPos,
    /// VCF line with GT `0/x`
    BadGt,
    /// raw BCF stream that ends inside a record (one byte into it or more)
    TruncatedBcf,
    /// the same truncated BCF stream, BGZF-compressed (the BGZF layer itself is intact)
    TruncatedBgzfBcf,
    /// VCF text that ends inside a record line, before the FORMAT column
    TruncatedVcfLine,
    /// a BGZF file (BCF or VCF inside) that ends inside the compressed payload of a block, as an
    /// interrupted copy leaves it
    TruncatedBgzfBlock,
    /// an empty line between two VCF records (or before the first, or after the last one)
    EmptyLine,
}

#[derive(Clone, Debug, Serialize, Deserialize)]
pub struct SweepCase {
    pub cs: CallSet,
    pub map: MapSpec,
    pub container: Container,
    pub fault: Fault,
    pub strict: bool,
}

fn sweep_strategy() -> impl Strategy<Value = SweepCase> {
    (
        base_strategy(8),
        container_strategy(),
        prop_oneof![2 => Just(Fault::Ploidy), 1 => Just(Fault::TruncatedColumns), 1 => Just(Fault::BadPos), 1 => Just(Fault::BadGt), 1 => Just(Fault::TruncatedBcf), 1 => Just(Fault::TruncatedBgzfBcf), 1 => Just(Fault::TruncatedVcfLine), 2 => Just(Fault::TruncatedBgzfBlock), 1 => Just(Fault::EmptyLine)],
        prop::bool::weighted(0.5),
    )
        .prop_map(|((cs, map), container, fault, strict)| SweepCase {
            cs,
            map,
            container: if fault == Fault::Ploidy { container } else { Container::Vcf },
            fault,
            strict,
        })
}

/// With --strict, a record before position `at` that would be skipped makes the run fail first,
/// whatever is wrong with the stream further on: its site must be the one named.
fn earlier_skip(case: &SweepCase, at: usize) -> Option<(String, u64)> {
    if !case.strict {
        return None;
    }
    let want = create(&case.cs, &case.map, None);
    match want.first_skipped {
        Some(s) if s < at => {
            let r = &case.cs.records[s];
            Some((case.cs.contigs[r.contig].clone(), r.pos))
        }
        _ => None,
    }
}

fn eval_sweep(ctx: &Ctx, case: &SweepCase) -> Verdict {
    let dir = ctx.worker_dir(crate::engine::worker_id());
    let n = case.cs.records.len();
    let opts = CreateOpts {
        map: Some(case.map.clone()),
        strict: case.strict,
        ..Default::default()
    };
    let selected_sample = case.map.entries[0].0;
    let mut positions_after_first = 0u64;
    for at in 0..=n {
        // a template record to carry the fault: copy of a neighbour (or a fresh one), complete genotypes
        let mut template = if n > 0 { case.cs.records[at.min(n - 1)].clone() } else { crate::props::c10::fresh_record(case.cs.samples.len()) };
        template.has_gt = true;
        for g in template.gts.iter_mut() {
            *g = Gt::diploid(Some(0), Some(1), false);
        }
        // keep positions increasing: place the faulty record between its neighbours
        let (contig, pos) = if at < n {
            (case.cs.records[at].contig, case.cs.records[at].pos)
        } else if n > 0 {
            (case.cs.records[n - 1].contig, case.cs.records[n - 1].pos + 1)
        } else {
            (0, 1)
        };
        template.contig = contig;
        template.pos = pos;
        let (run, argv, faulty_site) = match case.fault {
            Fault::Ploidy => {
                template.gts[selected_sample] = Gt { alleles: vec![Some(0)], phased: vec![] };
                // at every other position another selected sample of the same record is missing, in an
                // earlier or a later column: the record is then both "skippable" and faulty, and faulty wins
                if at % 2 == 1 {
                    if let Some((other, _)) = case.map.entries.iter().find(|(s, _)| *s != selected_sample) {
                        template.gts[*other] = Gt::diploid(None, None, false);
                    }
                }
                let mut records = case.cs.records.clone();
                // shift later records of the same contig so that positions stay strictly increasing
                for r in records.iter_mut().skip(at) {
                    if r.contig == contig {
                        r.pos += 1;
                    }
                }
                records.insert(at, template.clone());
                let cs = case.cs.with_records(records);
                let (run, argv) = run_create(ctx, &dir, "c10s", &cs, &case.container, &opts, Transport::Path);
                // with --strict an earlier skipped record fails first
                let want = create(&cs, &case.map, None);
                let first = match (case.strict, want.first_skipped) {
                    (true, Some(s)) if s < at => s,
                    _ => at,
                };
                let r = &cs.records[first];
                (run, argv, Some((cs.contigs[r.contig].clone(), r.pos)))
            }
            Fault::TruncatedBgzfBlock => {
                // one block per ~4 records so that the cut may fall in a first, middle or last block
                let as_bcf = (n + at) % 2 == 0;
                // blocks end at record boundaries, as bcftools and bgzip-by-line lay them out (a block
                // that starts with a record's length field is where a swallowed EOF would hide)
                let (raw, cuts) = if as_bcf {
                    let (raw, offsets) = crate::gen::bcf::to_bcf(&case.cs);
                    let mut bounds: Vec<usize> = vec![0];
                    bounds.extend(offsets.iter().step_by(1 + at % 3).copied());
                    bounds.push(raw.len());
                    bounds.dedup();
                    let sizes: Vec<u32> = bounds.windows(2).map(|w| (w[1] - w[0]).min(65_000) as u32).filter(|s| *s > 0).collect();
                    (raw, crate::gen::bgzf::Cuts::Sizes(sizes))
                } else {
                    (case.cs.to_vcf().into_bytes(), crate::gen::bgzf::Cuts::LinePerBlock)
                };
                let layout = crate::gen::bgzf::Layout { cuts, ..crate::gen::bgzf::Layout::plain() };
                let bytes = crate::gen::bgzf::compress(&raw, &layout).0;
                // walk the blocks; cut inside the payload of the block chosen by `at`
                let mut starts = Vec::new();
                let mut p = 0usize;
                while p + 18 <= bytes.len() {
                    let bsize = u16::from_le_bytes([bytes[p + 16], bytes[p + 17]]) as usize + 1;
                    if bsize > 28 {
                        starts.push((p, bsize));
                    }
                    p += bsize;
                }
                if starts.is_empty() {
                    continue;
                }
                let (bstart, bsize) = starts[at % starts.len()];
                let cut = bstart + 18 + (at * 37 + n) % (bsize - 18);
                let (run, argv) = run_create_bytes(ctx, &dir, "c10s", &case.cs, &bytes[..cut], if as_bcf { "bcf" } else { "vcf.gz" }, &CreateOpts { threads: if at % 3 == 0 { Some(1) } else { None }, ..opts.clone() }, Transport::Path);
                (run, argv, None)
            }
            Fault::TruncatedBcf | Fault::TruncatedBgzfBcf | Fault::TruncatedVcfLine => {
                // the stream ends inside record `at` (needs at least one record; `at` indexes it)
                if n == 0 || at >= n {
                    continue;
                }
                let (bytes, ext): (Vec<u8>, &str) = match case.fault {
                    Fault::TruncatedVcfLine => {
                        let mut text = case.cs.vcf_header();
                        for r in &case.cs.records[..at] {
                            text.push_str(&r.vcf_line(&case.cs));
                            text.push('\n');
                        }
                        let line = case.cs.records[at].vcf_line(&case.cs);
                        let tabs: Vec<usize> = line.match_indices('\t').map(|(i, _)| i).collect();
                        // keep 2..=7 complete columns
                        let keep = 2 + (case.cs.records[at].pos as usize + at) % 6;
                        text.push_str(&line[..tabs[keep - 1]]);
                        (text.into_bytes(), "vcf")
                    }
                    _ => {
                        let (raw, offsets) = crate::gen::bcf::to_bcf(&case.cs);
                        let start = offsets[at];
                        let end = if at + 1 < n { offsets[at + 1] } else { raw.len() };
                        // anywhere inside the record, from one byte in (also inside its length fields)
                        let span = end - start - 1;
                        let cut = start + 1 + ((case.cs.records[at].pos as usize).wrapping_mul(31) + at) % span;
                        let cut = if (case.cs.records[at].pos + at as u64) % 5 == 0 { end - 1 } else { cut };
                        let truncated = raw[..cut].to_vec();
                        if case.fault == Fault::TruncatedBgzfBcf {
                            (crate::gen::bgzf::compress(&truncated, &crate::gen::bgzf::Layout::plain()).0, "bcf")
                        } else {
                            (truncated, "raw.bcf")
                        }
                    }
                };
                let (run, argv) = run_create_bytes(ctx, &dir, "c10s", &case.cs, &bytes, ext, &opts, Transport::Path);
                (run, argv, earlier_skip(case, at))
            }
            Fault::TruncatedColumns | Fault::BadPos | Fault::BadGt | Fault::EmptyLine => {
                let mut lines: Vec<String> = case.cs.records.iter().map(|r| r.vcf_line(&case.cs)).collect();
                let good = template.vcf_line(&case.cs);
                let bad = match case.fault {
                    Fault::TruncatedColumns => good.split('\t').take(6).collect::<Vec<_>>().join("\t"),
                    Fault::EmptyLine => String::new(),
                    Fault::BadPos => {
                        let mut cols: Vec<&str> = good.split('\t').collect();
                        cols[1] = "12x";
                        cols.join("\t")
                    }
                    _ => {
                        let mut cols: Vec<String> = good.split('\t').map(|s| s.to_string()).collect();
                        let k = 9 + selected_sample;
                        cols[k] = cols[k].replacen("0/1", "0/x", 1);
                        cols.join("\t")
                    }
                };
                lines.insert(at, bad);
                let text = format!("{}{}\n", case.cs.vcf_header(), lines.join("\n"));
                let (run, argv) = run_create_bytes(ctx, &dir, "c10s", &case.cs, text.as_bytes(), "vcf", &opts, Transport::Path);
                (run, argv, earlier_skip(case, at))
            }
        };
        let what = format!("{:?} fault at record position {at} of {n} (`sfs {}`, {})", case.fault, argv.join(" "), case.container.label());
        ensure!(matches!(run.code, Some(c) if c != 0) || run.signal.is_some(), "{what}: the run must fail: {}", run.describe());
        ensure!(!run.panicked(), "{what}: panic: {}", run.describe());
        ensure!(!run.stderr.is_empty(), "{what}: no diagnostic: {}", run.describe());
        ensure!(!run.stdout_str().contains("#SHAPE") && run.stdout.is_empty(), "{what}: a failing run wrote output (partial spectrum?): {}", run.describe());
        if let Some((contig, pos)) = faulty_site {
            let serr = run.stderr_str();
            ensure!(crate::props::common::names_site(&serr, &contig, pos), "{what}: the error must name the first failing record {contig}:{pos}: {}", run.describe());
        }
        if at > 0 {
            positions_after_first += 1;
        }
    }
    let mut pass = Pass::new().nontrivial(positions_after_first > 0).label(format!("{:?}", case.fault)).label(if case.strict { "strict" } else { "non-strict" });
    pass.count("fault-positions", n as u64 + 1);
    Ok(pass)
}

pub fn fresh_record(n_samples: usize) -> crate::gen::callset::Record {
    crate::gen::callset::Record {
        contig: 0,
        pos: 1,
        n_alt: 1,
        symbolic: false,
        id: false,
        qual: None,
        filter: 0,
        info: 0,
        fmt_dp: false,
        fmt_gq: false,
        ref_pad: 0,
        has_gt: true,
        force: 0,
        gts: vec![Gt::diploid(Some(0), Some(1), false); n_samples],
    }
}

fn eval_large(ctx: &Ctx, case: &crate::props::c02::Case) -> Verdict {
    let converted = Case {
        cs: case.cs.clone(),
        map: case.map.clone(),
        container: case.container.clone(),
        mode: Mode::Project { m: case.m.clone() },
        strict_verbosity: 0,
    };
    let mut pass = eval(ctx, &converted)?;
    pass.add_label(format!("samples>={}", (case.cs.samples.len() / 100) * 100));
    Ok(pass)
}

pub fn check(ctx: &Ctx) -> Check {
    let parts: Vec<Box<dyn Part>> = vec![
        Box::new(RandomPart {
            name: "conservation-and-strict",
            rule: "call sets x maps x {plain (+ the same run with --strict at log verbosity default / -v / -vv / -vvv / -q / -qq), projection at --precision 12} x containers, single-record call sets forced as a class: Y of `Skipped X/Y` == records, X == model's skipped count, mass + X == records (exact without projection, cells*0.5e-12 + 1e-9 N with); --strict fails naming the FIRST record that would be skipped with empty stdout, or is byte-identical to the non-strict run; non-trivial = X >= 1 and mass >= 1",
            cases: ctx.tier.pick(4000, 120_000),
            strategy: Box::new(|| strategy().boxed()),
            eval: Box::new(eval),
        }),
        Box::new(RandomPart {
            name: "conservation-large-cohort",
            rule: "the conservation invariant with projection on cohorts of 86..700 samples (the ln-gamma path of the hypergeometric weights, beyond the 170! table and beyond f64 binomials): mass + skipped == records within cells*0.5e-12 + 1e-9 N at --precision 12",
            cases: ctx.tier.pick(128, 3000),
            strategy: Box::new(|| crate::props::c02::large_strategy().boxed()),
            eval: Box::new(eval_large),
        }),
        Box::new(RandomPart {
            name: "fault-sweep",
            rule: "a fault (non-diploid genotype in a selected sample in any container; VCF line with truncated columns, non-numeric POS, GT `0/x`, or no content at all; a raw or BGZF-compressed BCF stream ending inside the record; VCF text ending inside the record line; a BGZF file, BCF or VCF inside, ending inside the compressed payload of a first, middle or last block, read with one thread or the default four) placed at EVERY record position 0..=N (for ploidy faults at every other position together with a missing genotype in another selected sample of the same record) of generated call sets with skippable and countable records before and after, with and without --strict: exit != 0, diagnostic, empty stdout; ploidy faults must name contig and position of the first failing record; under --strict (half of the cases) a skippable record before the fault must be the one named, whatever kind of fault follows it; non-trivial = a fault at a position > 0",
            cases: ctx.tier.pick(800, 20_000),
            strategy: Box::new(|| sweep_strategy().boxed()),
            eval: Box::new(eval_sweep),
        }),
    ];
    Check {
        parts,
        level: "fault_enumeration",
        assumptions: vec!["reference model of create for skipped counts", "fault model: ploidy errors and three kinds of syntactically corrupt VCF lines"],
        post: None,
    }
}
