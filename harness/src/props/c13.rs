//! C13 — view = marginalize > project > mask > normalize, equal to chained single steps.

use proptest::prelude::*;
use serde::{Deserialize, Serialize};

use crate::{
    cli::{self, Input},
    engine::{pick_idx, Ctx, Failure, Part, Pass, RandomPart, Verdict},
    gen::{
        shapes::shape_strategy,
        values::{spec_from, Kind},
    },
    model::{npy, spec::Spec},
    props::{common, Check},
};

#[derive(Clone, Debug, Serialize, Deserialize)]
pub struct Case {
    pub spec: Spec,
    /// axes to remove (in naming order), if marginalizing
    pub marginalize: Option<Vec<usize>>,
    pub use_keep: bool,
    /// per-axis draws for the projection target (in post-marginalization axes), if projecting
    pub project: Option<Vec<u16>>,
    pub individuals: bool,
    pub mask: bool,
    pub normalize: bool,
    /// None = npy output
    pub precision: Option<usize>,
    pub zero_total: bool,
}

fn strategy() -> impl Strategy<Value = Case> {
    (
        spec_from(shape_strategy(1, 4, 1, 7, 500), Kind::Mixed, 500),
        (any::<u8>(), Just((0..4usize).collect::<Vec<_>>()).prop_shuffle(), any::<u16>(), any::<bool>()),
        (prop::collection::vec(any::<u16>(), 4), any::<bool>()),
        prop::option::weighted(0.75, 0usize..=17),
        prop::bool::weighted(0.04),
        any::<u8>(),
    )
        .prop_map(|(mut spec, (opts, axis_order, take, use_keep), (pdraws, individuals), precision, zero_total, big)| {
            // one case in twelve: more than 4096 (or 8192) entries, the generated values tiled
            if big % 12 == 0 {
                const BIG: [&[usize]; 8] = [&[4097], &[4200], &[65, 64], &[66, 65], &[17, 17, 15], &[9, 8, 8, 9], &[8200], &[3, 2731]];
                let shape = BIG[(big as usize / 12) % BIG.len()].to_vec();
                let n: usize = shape.iter().product();
                let base = spec.values.clone();
                spec = Spec::new(shape, (0..n).map(|i| base[(i + i / base.len()) % base.len()]).collect());
            }
            let d = spec.dims();
            if zero_total {
                for v in spec.values.iter_mut() {
                    *v = 0.0;
                }
            }
            let marginalize = if opts & 1 != 0 && d >= 2 {
                let order: Vec<usize> = axis_order.into_iter().filter(|a| *a < d).collect();
                let r = 1 + pick_idx(take, d - 1);
                Some(order.into_iter().take(r).collect())
            } else {
                None
            };
            Case {
                spec,
                marginalize,
                use_keep,
                project: if opts & 2 != 0 { Some(pdraws) } else { None },
                individuals,
                mask: opts & 4 != 0,
                normalize: opts & 8 != 0,
                precision,
                zero_total,
            }
        })
}

fn join(v: &[usize]) -> String {
    v.iter().map(|x| x.to_string()).collect::<Vec<_>>().join(",")
}

#[derive(Clone, Debug)]
enum Step {
    Marginalize(Vec<String>),
    Project(Vec<String>),
    Mask,
    Normalize,
}

impl Step {
    fn args(&self) -> Vec<String> {
        match self {
            Step::Marginalize(a) | Step::Project(a) => a.clone(),
            Step::Mask => vec!["--mask-monomorphic".into()],
            Step::Normalize => vec!["--normalize".into()],
        }
    }
}

fn same_value(g: f64, w: f64, tol: f64) -> bool {
    if w.is_nan() {
        g.is_nan()
    } else if w.is_infinite() {
        g == w
    } else {
        (g - w).abs() <= tol
    }
}

fn parse_output(bytes: &[u8], npy_out: bool) -> Result<(Vec<usize>, Vec<f64>), String> {
    if npy_out {
        let (shape, bits) = npy::validate_sfs_output(bytes)?;
        Ok((shape, bits.into_iter().map(f64::from_bits).collect()))
    } else {
        let t = cli::parse_text_spectrum(&String::from_utf8_lossy(bytes))?;
        Ok((t.shape, t.values))
    }
}

fn eval(ctx: &Ctx, case: &Case) -> Verdict {
    let dir = ctx.worker_dir(crate::engine::worker_id());
    std::fs::write(dir.join("in.sfs"), common::text_bytes_exact(&case.spec)).expect("write");
    let d = case.spec.dims();

    // the model, applied in the documented order
    let mut model = case.spec.clone();
    let mut steps: Vec<Step> = Vec::new();
    if let Some(remove) = &case.marginalize {
        model = model.marginalize(remove);
        let args = if case.use_keep {
            let keep: Vec<usize> = (0..d).filter(|a| !remove.contains(a)).collect();
            vec!["-M".to_string(), join(&keep)]
        } else {
            vec!["-m".to_string(), join(remove)]
        };
        steps.push(Step::Marginalize(args));
    }
    if let Some(draws) = &case.project {
        // large inputs are projected to small targets (the model is the naive double sum over all
        // pairs of source and target cells)
        let cap = if model.values.len() > 2000 { (40usize / model.dims().max(1)).max(3) } else { usize::MAX };
        let mut to: Vec<usize> = model.shape.iter().enumerate().map(|(j, len)| 1 + pick_idx(draws[j], (*len).min(cap))).collect();
        if case.individuals {
            for t in to.iter_mut() {
                if *t % 2 == 0 {
                    *t -= 1;
                }
            }
        }
        model = model.project(&to);
        let args = if case.individuals {
            vec!["-p".to_string(), join(&to.iter().map(|t| (t - 1) / 2).collect::<Vec<_>>())]
        } else {
            vec!["--project-shape".to_string(), join(&to)]
        };
        steps.push(Step::Project(args));
    }
    if case.mask {
        model = model.mask_monomorphic();
        steps.push(Step::Mask);
    }
    if case.normalize {
        model = model.normalize();
        steps.push(Step::Normalize);
    }
    let out_args: Vec<String> = match case.precision {
        Some(p) => vec!["--precision".into(), p.to_string()],
        None => vec!["-O".into(), "npy".into()],
    };

    // combined invocation
    let mut combined: Vec<String> = vec!["view".into()];
    for s in &steps {
        combined.extend(s.args());
    }
    combined.extend(out_args.clone());
    combined.push("in.sfs".into());
    let run_c = cli::sfs(ctx, &combined, Input::Null, &dir);
    let what = format!("`sfs {}` on shape {:?}", combined.join(" "), case.spec.shape);
    ensure!(run_c.ok(), "{what} failed: {}", run_c.describe());

    // the same invocation reading the spectrum from stdin instead of a path
    {
        let mut argv = combined.clone();
        argv.pop();
        let path = dir.join("in.sfs");
        let run_s = cli::sfs(ctx, &argv, Input::File(&path), &dir);
        ensure!(run_s.code == run_c.code && run_s.stdout == run_c.stdout, "{what}: reading the same spectrum from stdin gives a different result: {} vs {}", run_s.describe(), run_c.describe());
    }

    // (i) chain of single-option invocations in the documented order, losslessly connected
    if steps.len() >= 2 {
        let mut input = "in.sfs".to_string();
        let mut last = None;
        for (i, s) in steps.iter().enumerate() {
            let mut a: Vec<String> = vec!["view".into()];
            a.extend(s.args());
            if i + 1 < steps.len() {
                let out = format!("stage{i}.npy");
                a.extend(["-O".into(), "npy".into(), "-o".into(), out.clone(), input.clone()]);
                let r = cli::sfs(ctx, &a, Input::Null, &dir);
                ensure!(r.ok(), "chain stage `sfs {}` failed: {}", a.join(" "), r.describe());
                input = out;
            } else {
                a.extend(out_args.clone());
                a.push(input.clone());
                let r = cli::sfs(ctx, &a, Input::Null, &dir);
                ensure!(r.ok(), "chain stage `sfs {}` failed: {}", a.join(" "), r.describe());
                last = Some((r, a));
            }
        }
        let (r, a) = last.unwrap();
        ensure!(
            r.stdout == run_c.stdout,
            "{what} differs from piping through single-option invocations in the documented order (last stage `sfs {}`):\n combined: {:?}\n  chained: {:?}",
            a.join(" "),
            cli::cut(&String::from_utf8_lossy(&run_c.stdout), 300),
            cli::cut(&String::from_utf8_lossy(&r.stdout), 300)
        );
    }

    // (i-b) the same chain as a real shell pipeline (`sfs view A -O npy in | sfs view B -O npy | ...`);
    // for one case in four the bytes between the stages are dribbled: the first 1..5 bytes, a
    // pause, then the rest (a slow producer), which must not matter either
    if !steps.is_empty() {
        let bin = ctx.sfs_bin.to_string_lossy().into_owned();
        let k = case.spec.values.len() + steps.len();
        let dribble = if k % 4 == 0 { format!(" | {{ head -c {}; sleep 0.02; cat; }}", 1 + k % 5) } else { String::new() };
        let mut script = String::from("set -o pipefail; ");
        for (i, st) in steps.iter().enumerate() {
            let quoted: Vec<String> = st.args().iter().map(|a| format!("'{a}'")).collect();
            if i > 0 {
                script.push_str(&dribble);
                script.push_str(" | ");
            }
            script.push_str(&format!("\"{bin}\" view {}", quoted.join(" ")));
            if i + 1 < steps.len() {
                script.push_str(" -O npy");
            } else {
                for a in &out_args {
                    script.push_str(&format!(" '{a}'"));
                }
            }
            if i == 0 {
                script.push_str(" in.sfs");
            }
        }
        if steps.len() == 1 {
            // a single step: feed it from `cat` through the (possibly dribbling) pipe instead
            script = format!("set -o pipefail; cat in.sfs{dribble} | \"{bin}\" view {} {}", steps[0].args().iter().map(|a| format!("'{a}'")).collect::<Vec<_>>().join(" "), out_args.iter().map(|a| format!("'{a}'")).collect::<Vec<_>>().join(" "));
        }
        let r = cli::run_bin(ctx, std::path::Path::new("/bin/bash"), &["-c", &script], Input::Null, &dir, &[("SFS_ALLOW_STDIN", "1")]);
        ensure!(
            r.ok() && r.stdout == run_c.stdout,
            "{what} differs from the shell pipeline `{}`:\n combined: {:?}\n pipeline: {}",
            script.replace(&bin, "sfs"),
            cli::cut(&String::from_utf8_lossy(&run_c.stdout), 200),
            r.describe()
        );
    }

    // (ii) absolute, against the harness's model in the documented order
    let (shape, values) = parse_output(&run_c.stdout, case.precision.is_none()).map_err(|e| Failure::new(format!("{what}: unreadable output: {e}")))?;
    ensure!(shape == model.shape, "{what}: output shape {shape:?}, model {:?}", model.shape);
    let scale: f64 = model.values.iter().filter(|v| v.is_finite()).map(|v| v.abs()).sum::<f64>().max(case.spec.values.iter().map(|v| v.abs()).sum());
    let print_tol = case.precision.map(|p| 0.5 * 10f64.powi(-(p as i32)) * (1.0 + 1e-9)).unwrap_or(0.0);
    for (i, (g, w)) in values.iter().zip(&model.values).enumerate() {
        let rel = if case.normalize { 1e-10 } else { 1e-10 * (1.0 + scale) };
        ensure!(same_value(*g, *w, print_tol + rel), "{what}: cell {i} = {g}, applying marginalize > project > mask > normalize in that order gives {w}");
    }

    // (iii)-(v) the single options on their own
    if steps.len() == 1 || steps.is_empty() {
        match steps.first() {
            Some(Step::Mask) => {
                let last = values.len() - 1;
                for (i, (g, w)) in values.iter().zip(&case.spec.values).enumerate() {
                    let expect = if i == 0 || i == last { 0.0 } else { *w };
                    ensure!(same_value(*g, expect, print_tol + 1e-12 * (1.0 + w.abs())), "--mask-monomorphic alone: cell {i} = {g}, expected {expect} (only the all-zero and all-maximum entries are zeroed)");
                }
            }
            Some(Step::Normalize) if !case.zero_total => {
                let total: f64 = case.spec.values.iter().sum();
                if total > 0.0 {
                    let s: f64 = values.iter().sum();
                    ensure!((s - 1.0).abs() <= values.len() as f64 * print_tol + 1e-9, "--normalize alone: entries sum to {s}");
                    for (i, (g, w)) in values.iter().zip(&case.spec.values).enumerate() {
                        ensure!((g * total - w).abs() <= print_tol * total + 1e-9 * (1.0 + w.abs()), "--normalize alone: cell {i} = {g}, but {w} / {total} = {}", w / total);
                    }
                }
            }
            None => {
                for (i, (g, w)) in values.iter().zip(&case.spec.values).enumerate() {
                    ensure!(same_value(*g, *w, print_tol + 1e-12 * w.abs()), "view without options: cell {i} = {g}, input {w} (precision {:?})", case.precision);
                }
            }
            _ => {}
        }
    }

    let mut lens = model.shape.clone();
    lens.sort();
    lens.dedup();
    let noncommuting = (case.mask && case.normalize) || (case.mask && case.project.is_some()) || (case.marginalize.is_some() && case.project.is_some() && case.spec.shape.iter().collect::<std::collections::BTreeSet<_>>().len() >= 2);
    let mut pass = Pass::new().nontrivial(steps.len() >= 2 && noncommuting);
    pass.add_label(format!("options={}", steps.len()));
    pass.add_label(if case.precision.is_some() { "text-output" } else { "npy-output" });
    if case.spec.values.len() > 4096 {
        pass.add_label("more-than-4096-entries");
    }
    if case.zero_total {
        pass.add_label("zero-total");
    }
    let combo: String = [(case.marginalize.is_some(), 'm'), (case.project.is_some(), 'p'), (case.mask, 'k'), (case.normalize, 'n')].iter().map(|(b, c)| if *b { *c } else { '-' }).collect();
    pass.add_label(format!("subset:{combo}"));
    Ok(pass)
}

pub fn check(ctx: &Ctx) -> Check {
    let parts: Vec<Box<dyn Part>> = vec![Box::new(RandomPart {
        name: "option-subsets",
        rule: "spectra with 1..4 axes (one in twelve with 4 097 .. 8 200 entries) (integer / real / sparse values, 4% with zero total) x all 2^4 option subsets x an admissible marginalization set (as -m or -M, any naming order) and projection target (as --project-shape or -p, in the post-marginalization axes) x final output {text at precision 0..17, npy}: (i) the same options applied one per `view` invocation in the documented order, stages connected losslessly with -O npy (once through files, once as a real shell pipeline whose inter-stage bytes are, for one case in four, dribbled: 1..5 bytes, a pause, the rest), must give byte-identical final output; (ii) every cell within tolerance of the harness's model applied in the order marginalize > project > mask > normalize; (iii) mask alone zeroes exactly the first and last cell; (iv) normalize alone sums to one and preserves ratios; (v) no options reproduces the input to the printed precision; non-trivial = >=2 options including a non-commuting pair (mask+normalize, mask+project, marginalize+project with unequal axes); the 16 subsets are listed as labels",
        cases: ctx.tier.pick(3000, 100_000),
        strategy: Box::new(|| strategy().boxed()),
        eval: Box::new(eval),
    })];
    Check {
        parts,
        level: "exploration",
        assumptions: vec!["combined and chained executions perform the same f64 operations, hence byte identity", "the harness's marginalize/project/mask/normalize models (validated on their own in C03/C04)"],
        post: Some(Box::new(|report| {
            let subsets: std::collections::BTreeSet<String> = report.parts.iter().flat_map(|p| p.labels.keys().filter(|l| l.starts_with("subset:")).cloned()).collect();
            if subsets.len() == 16 {
                Ok(serde_json::json!({"option_subsets_exercised": 16}))
            } else {
                Err(format!("only {} of 16 option subsets were exercised", subsets.len()))
            }
        })),
    }
}
