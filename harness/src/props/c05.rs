//! C05 — folding is mass-preserving, idempotent and symmetric under allele polarity.

use proptest::prelude::*;
use serde::{Deserialize, Serialize};

use crate::{
    cli::{self, Input},
    engine::{guard, Ctx, EnumPart, Failure, Part, Pass, RandomPart, Verdict},
    gen::{
        shapes::{all_shapes, odometer, shape_strategy},
        values::{spec_from, Kind},
    },
    model::spec::{hashed_ints, Spec},
    props::{common, Check},
};

#[derive(Clone, Copy, Debug, PartialEq, Serialize, Deserialize)]
pub enum Fill {
    Nan,
    Zero,
    MinusOne,
    Inf,
}

pub const FILLS: [Fill; 4] = [Fill::Nan, Fill::Zero, Fill::MinusOne, Fill::Inf];

impl Fill {
    pub fn value(self) -> f64 {
        match self {
            Fill::Nan => f64::NAN,
            Fill::Zero => 0.0,
            Fill::MinusOne => -1.0,
            Fill::Inf => f64::INFINITY,
        }
    }
    pub fn keyword(self) -> &'static str {
        match self {
            Fill::Nan => "nan",
            Fill::Zero => "zero",
            Fill::MinusOne => "minus-one",
            Fill::Inf => "inf",
        }
    }
}

#[derive(Clone, Debug, Serialize, Deserialize)]
pub struct LibCase {
    pub spec: Spec,
    pub fill: Fill,
}

fn lib_fold(spec: &Spec, fill: f64) -> Result<Spec, Failure> {
    let scs = spec.to_scs();
    guard(|| Spec::from_scs(&scs.fold().into_spectrum(fill))).map_err(|p| Failure::new(format!("fold of shape {:?}: {p}", spec.shape)))
}

fn ulp_close(a: f64, b: f64) -> bool {
    a == b || (a - b).abs() <= 4.0 * f64::EPSILON * a.abs().max(b.abs())
}

fn is_integral(spec: &Spec) -> bool {
    spec.values.iter().all(|v| v.fract() == 0.0 && v.abs() < 1e9)
}

pub fn antisymmetric(spec: &Spec) -> bool {
    // x[k] + x[mirror k] constant over all cells
    let m = spec.mirror();
    let first = spec.values[0] + m.values[0];
    spec.values.iter().zip(&m.values).all(|(a, b)| a + b == first)
}

fn eval_lib(_ctx: &Ctx, case: &LibCase) -> Verdict {
    let spec = &case.spec;
    let fill = case.fill.value();
    let total: usize = spec.shape.iter().map(|n| n - 1).sum();
    let want = spec.fold(fill);
    let got = lib_fold(spec, fill)?;
    ensure!(got.shape == spec.shape, "fold changed the shape {:?} -> {:?}", spec.shape, got.shape);
    for (pos, idx) in odometer(&spec.shape).into_iter().enumerate() {
        let s: usize = idx.iter().sum();
        let (g, w) = (got.values[pos], want.values[pos]);
        if 2 * s < total {
            ensure!(g.to_bits() == w.to_bits() || g == w, "fold of {:?}: cell {idx:?} (s={s} < T/2={}) = {g}, entry plus mirror entry is {w}", spec, total as f64 / 2.0);
        } else if 2 * s == total {
            ensure!(ulp_close(g, w), "fold of {:?}: diagonal cell {idx:?} = {g}, mean of the mirror pair is {w}", spec);
        } else if fill.is_nan() {
            ensure!(g.is_nan(), "fold of {:?} with fill NaN: cell {idx:?} (s={s} > T/2) = {g}", spec);
        } else {
            ensure!(g == fill, "fold of {:?} with fill {fill}: cell {idx:?} (s={s} > T/2) = {g}", spec);
        }
    }
    // laws with fill 0
    let exact = is_integral(spec);
    let f0 = lib_fold(spec, 0.0)?;
    let scale: f64 = spec.values.iter().map(|v| v.abs()).sum();
    if exact {
        ensure!(f0.sum() == spec.sum(), "fold with fill 0 changed the mass of {:?}: {} -> {}", spec, spec.sum(), f0.sum());
    } else {
        ensure!((f0.sum() - spec.sum()).abs() <= 1e-12 * scale.max(1e-300), "fold with fill 0 changed the mass: {} -> {}", spec.sum(), f0.sum());
    }
    let f00 = lib_fold(&f0, 0.0)?;
    for (i, (a, b)) in f00.values.iter().zip(&f0.values).enumerate() {
        ensure!(if exact { a == b } else { ulp_close(*a, *b) }, "folding twice differs from folding once at flat cell {i}: {a} vs {b} (input {:?})", spec);
    }
    let fm = lib_fold(&spec.mirror(), 0.0)?;
    for (i, (a, b)) in fm.values.iter().zip(&f0.values).enumerate() {
        ensure!(if exact { a == b } else { ulp_close(*a, *b) }, "fold(mirror(x)) differs from fold(x) at flat cell {i}: {a} vs {b} (input {:?})", spec);
    }

    // one folded spectrum unfolded several times: `Folded::into_spectrum` takes `&self`, so every call
    // (and every call on a clone made in between) must use its own fill and nothing of the earlier ones
    {
        let scs = spec.to_scs();
        let fills = [fill, 0.0, -1.0, f64::INFINITY, fill, f64::NAN, 0.0];
        let outs = guard(|| {
            let folded = scs.fold();
            let mut outs = Vec::new();
            for (i, f) in fills.iter().enumerate() {
                if i == 3 {
                    let copy = folded.clone();
                    outs.push((*f, "a clone made after three calls", Spec::from_scs(&copy.into_spectrum(*f))));
                }
                outs.push((*f, "the same Folded", Spec::from_scs(&folded.into_spectrum(*f))));
            }
            outs
        })
        .map_err(|p| Failure::new(format!("repeated into_spectrum on the fold of shape {:?}: {p}", spec.shape)))?;
        for (k, (f, who, out)) in outs.iter().enumerate() {
            let want = spec.fold(*f);
            for (pos, (g, w)) in out.values.iter().zip(&want.values).enumerate() {
                ensure!(
                    (g.is_nan() && w.is_nan()) || ulp_close(*g, *w),
                    "call {k} of into_spectrum on {who} of {:?} with fill {f}: flat cell {pos} = {g}, the definition with this fill gives {w} (fills used so far: {:?})",
                    spec,
                    &fills[..fills.len().min(k + 1)]
                );
            }
        }
    }

    // the same definition on the frequency type-state (Sfs): the fold of the normalised values,
    // untouched by the fill (no re-normalisation after filling)
    let sum = spec.sum();
    let mut sfs_checked = false;
    if spec.values.iter().all(|v| v.is_finite() && *v >= 0.0) && sum.is_finite() && sum > 0.0 {
        let scs = spec.to_scs();
        let (normalised, folded) = guard(|| {
            let sfs = scs.into_normalized();
            (Spec::from_scs(&sfs), Spec::from_scs(&sfs.fold().into_spectrum(fill)))
        })
        .map_err(|p| Failure::new(format!("fold of the normalised spectrum of shape {:?}: {p}", spec.shape)))?;
        let want = normalised.fold(fill);
        for (pos, (g, w)) in folded.values.iter().zip(&want.values).enumerate() {
            ensure!(
                (g.is_nan() && w.is_nan()) || ulp_close(*g, *w),
                "fold of the normalised spectrum (Sfs) of {:?} with fill {fill}: flat cell {pos} = {g}, the definition applied to the normalised values gives {w}",
                spec
            );
        }
        sfs_checked = true;
    }
    // non-finite entries are values like any other: NaN and infinities propagate through the sum
    // of a mirror pair, and only cells above the fold line receive the fill
    let mut nonfinite_checked = false;
    if spec.values.len() >= 2 {
        let mut values = spec.values.clone();
        for (i, v) in values.iter_mut().enumerate() {
            match crate::engine::splitmix64(0xC05 ^ (i as u64) << 8 ^ spec.values.len() as u64) % 7 {
                0 => *v = f64::NAN,
                1 => *v = f64::INFINITY,
                2 => *v = f64::NEG_INFINITY,
                _ => {}
            }
        }
        let wild = Spec::new(spec.shape.clone(), values);
        let want = wild.fold(fill);
        let got = lib_fold(&wild, fill)?;
        for (pos, (g, w)) in got.values.iter().zip(&want.values).enumerate() {
            ensure!(
                (g.is_nan() && w.is_nan()) || g == w || (g.is_finite() && w.is_finite() && ulp_close(*g, *w)),
                "fold of {:?} with fill {fill}: flat cell {pos} = {g}, the definition gives {w} (non-finite entries must propagate, not be replaced)",
                wild
            );
        }
        nonfinite_checked = true;
    }

    let d = spec.dims();
    let nontrivial = !antisymmetric(spec) && (d >= 2 || spec.shape.contains(&1));
    let mut pass = Pass::new().nontrivial(nontrivial);
    if sfs_checked {
        pass.add_label("also-as-Sfs(normalised)");
    }
    if nonfinite_checked {
        pass.add_label("also-with-NaN/inf-entries");
    }
    pass.add_label(format!("axes={d}"));
    pass.add_label(if total % 2 == 0 { "even-total(diagonal)" } else { "odd-total" });
    if spec.shape.contains(&1) {
        pass.add_label("has-length-1-axis");
    }
    pass.add_label(format!("fill={}", case.fill.keyword()));
    Ok(pass)
}

#[derive(Clone, Debug, Serialize, Deserialize)]
pub struct ShapeCase {
    pub shape: Vec<usize>,
}

fn eval_shape(ctx: &Ctx, case: &ShapeCase) -> Verdict {
    let mut nontrivial = false;
    let mut n = 0;
    for salt in [0xA1u64, 0xB2, 0xC3] {
        let mut values = hashed_ints(&case.shape, salt, 17);
        if salt == 0xC3 {
            // reals
            for (i, v) in values.iter_mut().enumerate() {
                *v = *v * 0.37 + (i as f64) * 0.011 + 0.003;
            }
        }
        let spec = Spec::new(case.shape.clone(), values);
        for fill in FILLS {
            let pass = eval_lib(ctx, &LibCase { spec: spec.clone(), fill })?;
            nontrivial |= pass.nontrivial;
            n += 1;
        }
    }
    let total: usize = case.shape.iter().map(|n| n - 1).sum();
    let mut pass = Pass::new().nontrivial(nontrivial).label(format!("axes={}", case.shape.len()));
    pass.add_label(if total % 2 == 0 { "even-total(diagonal)" } else { "odd-total" });
    pass.count("folds", n);
    Ok(pass)
}

fn fill_strategy() -> impl Strategy<Value = Fill> {
    prop_oneof![Just(Fill::Zero), Just(Fill::Nan), Just(Fill::MinusOne), Just(Fill::Inf)]
}

fn lib_strategy() -> impl Strategy<Value = LibCase> {
    (spec_from(shape_strategy(1, 5, 1, 7, 2500), Kind::Mixed, 2500), fill_strategy()).prop_map(|(spec, fill)| LibCase { spec, fill })
}

#[derive(Clone, Debug, Serialize, Deserialize)]
pub struct CliCase {
    pub spec: Spec,
    pub fill: Option<Fill>,
    pub precision: usize,
    pub npy_input: bool,
    pub to_file: bool,
}

fn cli_strategy() -> impl Strategy<Value = CliCase> {
    (
        spec_from(shape_strategy(1, 4, 1, 6, 600), Kind::Mixed, 600),
        prop::option::weighted(0.85, fill_strategy()),
        0usize..=12,
        any::<bool>(),
        any::<bool>(),
    )
        .prop_map(|(spec, fill, precision, npy_input, to_file)| CliCase {
            spec,
            fill,
            precision,
            npy_input,
            to_file,
        })
}

fn eval_cli(ctx: &Ctx, case: &CliCase) -> Verdict {
    let dir = ctx.worker_dir(crate::engine::worker_id());
    let name = if case.npy_input { "in.npy" } else { "in.sfs" };
    let bytes = if case.npy_input {
        common::npy_bytes(&case.spec)
    } else {
        common::text_bytes_exact(&case.spec)
    };
    std::fs::write(dir.join(name), bytes).expect("write");
    let p = case.precision.to_string();
    let mut args: Vec<String> = vec!["fold".into(), "--precision".into(), p];
    if let Some(f) = case.fill {
        args.push("--fill".into());
        args.push(f.keyword().into());
    }
    let out_path = dir.join("out.sfs");
    let _ = std::fs::remove_file(&out_path);
    if case.to_file {
        args.push("-o".into());
        args.push("out.sfs".into());
    }
    args.push(name.into());
    let run = cli::sfs(ctx, &args, Input::Null, &dir);
    let text = if case.to_file {
        ensure!(run.ok() && run.stdout.is_empty(), "fold -o: expected success with empty stdout: {}", run.describe());
        std::fs::read_to_string(&out_path).map_err(|e| Failure::new(format!("fold -o wrote no readable file: {e}")))?
    } else {
        ensure!(run.ok(), "fold failed: {}", run.describe());
        run.stdout_str()
    };
    let got = cli::parse_text_spectrum(&text).map_err(|e| Failure::new(format!("fold output is not a text spectrum ({e}): {:?}", cli::cut(&text, 400))))?;
    let fill = case.fill.unwrap_or(Fill::Nan).value(); // documented default: nan
    let want = case.spec.fold(fill);
    ensure!(got.shape == want.shape, "fold output shape {:?}, expected {:?}", got.shape, want.shape);
    for (i, (g, w)) in got.values.iter().zip(&want.values).enumerate() {
        if w.is_nan() {
            ensure!(g.is_nan(), "fold --fill {:?}: cell {i} printed {:?}, expected NaN (input {:?})", case.fill, got.tokens[i], case.spec);
        } else if w.is_infinite() {
            ensure!(g == w, "fold --fill {:?}: cell {i} printed {:?}, expected {w}", case.fill, got.tokens[i]);
        } else {
            let tol = 0.5 * 10f64.powi(-(case.precision as i32)) * (1.0 + 1e-9) + 1e-12 * w.abs();
            ensure!((g - w).abs() <= tol, "fold --fill {:?} --precision {}: cell {i} printed {:?}, expected {w} (input {:?})", case.fill, case.precision, got.tokens[i], case.spec);
        }
    }
    let nontrivial = !antisymmetric(&case.spec) && (case.spec.dims() >= 2 || case.spec.shape.contains(&1));
    Ok(Pass::new()
        .nontrivial(nontrivial)
        .label(format!("fill={}", case.fill.map(|f| f.keyword()).unwrap_or("default")))
        .label(if case.to_file { "to-file" } else { "to-stdout" }))
}

pub fn check(ctx: &Ctx) -> Check {
    let max_len = ctx.tier.pick(5, 7);
    let parts: Vec<Box<dyn Part>> = vec![
        Box::new(EnumPart {
            name: "lib-exhaustive",
            rule: "every shape with <=4 axes of length <=5 (thorough <=7) and every 5-axis shape of length <=3 x 4 fills x 3 non-ramp value vectors (two hashed-integer, one real); one `Folded` unfolded seven times with changing fills (and a clone made midway), each result against the definition with its own fill; per-cell definition (2s vs T), mass / idempotence / polarity laws with fill 0; each spectrum is folded a second time on the frequency type-state (into_normalized().fold(), compared with the definition applied to the normalised values) and a third time with a seventh of its entries replaced by NaN / +inf / -inf (which must propagate through the pair sums and never be replaced by the fill); non-trivial = input not mirror-antisymmetric and (>=2 axes or a length-1 axis); distinct by shape",
            exhaustive: true,
            cases: Box::new(move |_| {
                let mut v: Vec<ShapeCase> = all_shapes(4, 1, max_len).into_iter().map(|shape| ShapeCase { shape }).collect();
                v.extend(all_shapes(5, 1, 3).into_iter().filter(|s| s.len() == 5).map(|shape| ShapeCase { shape }));
                v
            }),
            eval: Box::new(eval_shape),
        }),
        Box::new(EnumPart {
            name: "lib-large-shapes",
            rule: "spectra of 4 097 .. 8 910 entries in 1..4 axes (even and odd totals): the same per-cell definition and laws as lib-exhaustive, 4 fills x 3 value vectors each",
            exhaustive: false,
            cases: Box::new(|_| {
                [vec![4097usize], vec![4098], vec![8193], vec![65, 64], vec![65, 65], vec![3, 2731], vec![2, 4099], vec![17, 17, 15], vec![9, 8, 8, 9], vec![10, 9, 11, 9]]
                    .into_iter()
                    .map(|shape| ShapeCase { shape })
                    .collect()
            }),
            eval: Box::new(eval_shape),
        }),
        Box::new(RandomPart {
            name: "lib-random",
            rule: "random shapes (1..4 axes, lengths 1..7) x integer/real/sparse values x random fill; same oracle; distinct by (spectrum, fill)",
            cases: ctx.tier.pick(15_000, 600_000),
            strategy: Box::new(|| lib_strategy().boxed()),
            eval: Box::new(eval_lib),
        }),
        Box::new(RandomPart {
            name: "cli-fold",
            rule: "sfs fold [--fill nan|zero|minus-one|inf] --precision p [-o file] on text/npy input: printed cells vs the definition at the printed precision; the four keywords map to the four values, default is nan",
            cases: ctx.tier.pick(1000, 30_000),
            strategy: Box::new(|| cli_strategy().boxed()),
            eval: Box::new(eval_cli),
        }),
    ];
    Check {
        parts,
        level: "exploration",
        assumptions: vec!["the per-cell definition in the property statement (2s vs T) is the oracle", "x[k]+x[mirror] is one commutative addition, compared bitwise; diagonal cells to 4 ulp"],
        post: None,
    }
}
