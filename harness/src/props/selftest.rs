//! Oracles against ground truth that is not the harness's own (DESIGN.md §7.1). Run by setup.sh.

use std::{io::Read, path::Path};

use noodles_bcf as bcf;
use noodles_vcf as vcf;

use crate::{
    cli::parse_text_spectrum,
    engine::Ctx,
    gen::{
        bcf as mybcf,
        callset::{CallSet, Gt, MapSpec, Record},
    },
    model::{create::create, npy, spec::Spec},
    props::c06::estimators,
};

fn fixture(ctx: &Ctx, rel: &str) -> std::path::PathBuf {
    ctx.repo.join("cli/tests").join(rel)
}

fn gunzip(bytes: &[u8]) -> Vec<u8> {
    let mut out = Vec::new();
    flate2::read::MultiGzDecoder::new(bytes).read_to_end(&mut out).expect("gunzip");
    out
}

/// Minimal VCF text parser for the fixtures (GT only).
fn parse_vcf_text(text: &str) -> CallSet {
    let mut samples = Vec::new();
    let mut contigs: Vec<String> = Vec::new();
    let mut records = Vec::new();
    for line in text.lines() {
        if let Some(rest) = line.strip_prefix("#CHROM") {
            samples = rest.split('\t').skip(9).map(|s| s.to_string()).collect();
        } else if !line.starts_with('#') && !line.is_empty() {
            let cols: Vec<&str> = line.split('\t').collect();
            let contig = match contigs.iter().position(|c| c == cols[0]) {
                Some(i) => i,
                None => {
                    contigs.push(cols[0].to_string());
                    contigs.len() - 1
                }
            };
            let keys: Vec<&str> = cols[8].split(':').collect();
            let gt_idx = keys.iter().position(|k| *k == "GT");
            let gts = cols[9..]
                .iter()
                .map(|s| match gt_idx {
                    Some(i) => Gt::parse(s.split(':').nth(i).unwrap_or(".")),
                    None => Gt::diploid(None, None, false),
                })
                .collect();
            records.push(Record {
                contig,
                pos: cols[1].parse().unwrap(),
                n_alt: if cols[4] == "." { 0 } else { cols[4].split(',').count() as u8 },
                symbolic: false,
                id: false,
                qual: None,
                filter: 0,
                info: 0,
                fmt_dp: false,
                fmt_gq: false,
                ref_pad: 0,
                has_gt: gt_idx.is_some(),
                force: 0,
                gts,
            });
        }
    }
    CallSet { contigs, samples, records }
}

/// Decode a BCF fixture through noodles into the harness's call-set structure.
fn load_bcf(path: &Path) -> Result<CallSet, String> {
    let raw = std::fs::read(path).map_err(|e| e.to_string())?;
    let data = gunzip(&raw);
    let mut reader = bcf::Reader::from(&data[..]);
    let header = reader.read_header().map_err(|e| e.to_string())?;
    let maps = bcf::header::StringMaps::try_from(&header).map_err(|e| e.to_string())?;
    let samples: Vec<String> = header.sample_names().iter().cloned().collect();
    let mut contigs: Vec<String> = Vec::new();
    let mut records = Vec::new();
    let mut rec = bcf::lazy::Record::default();
    while reader.read_lazy_record(&mut rec).map_err(|e| e.to_string())? > 0 {
        let cname = maps.contigs().get_index(rec.chromosome_id()).unwrap_or("?").to_string();
        let contig = match contigs.iter().position(|c| *c == cname) {
            Some(i) => i,
            None => {
                contigs.push(cname);
                contigs.len() - 1
            }
        };
        let g = rec.genotypes().try_into_vcf_record_genotypes(&header, maps.strings()).map_err(|e| e.to_string())?;
        let gts: Vec<Gt> = g
            .genotypes()
            .map_err(|e| e.to_string())?
            .iter()
            .map(|g| match g {
                None => Gt::diploid(None, None, false),
                Some(g) => Gt {
                    alleles: g.iter().map(|a| a.position().map(|p| p as u64)).collect(),
                    phased: g.iter().skip(1).map(|a| matches!(a.phasing(), vcf::record::genotypes::sample::value::genotype::allele::Phasing::Phased)).collect(),
                },
            })
            .collect();
        records.push(Record {
            contig,
            pos: usize::from(rec.position()) as u64,
            n_alt: 3,
            symbolic: false,
            id: false,
            qual: None,
            filter: 0,
            info: 0,
            fmt_dp: false,
            fmt_gq: false,
            ref_pad: 0,
            has_gt: true,
            force: 0,
            gts,
        });
    }
    Ok(CallSet { contigs, samples, records })
}

fn toml_args(text: &str) -> Vec<String> {
    // args = [ "a", "b,c", ... ]: every double-quoted string between the brackets
    let start = text.find('[').unwrap_or(0);
    let end = text.find(']').unwrap_or(text.len());
    let mut out = Vec::new();
    let mut cur: Option<String> = None;
    for c in text[start + 1..end].chars() {
        match (&mut cur, c) {
            (None, '"') => cur = Some(String::new()),
            (Some(_), '"') => out.push(cur.take().unwrap()),
            (Some(s), c) => s.push(c),
            (None, _) => {}
        }
    }
    out
}

fn map_from_pairs(cs: &CallSet, pairs: Vec<(String, Option<String>)>) -> Option<MapSpec> {
    let mut labels: Vec<String> = Vec::new();
    let mut entries = Vec::new();
    for (s, l) in pairs {
        let si = cs.samples.iter().position(|x| *x == s)?;
        let li = l.map(|l| match labels.iter().position(|x| *x == l) {
            Some(i) => i,
            None => {
                labels.push(l);
                labels.len() - 1
            }
        });
        entries.push((si, li));
    }
    Some(MapSpec { entries, labels, as_file: false })
}

fn check_create_goldens(ctx: &Ctx, problems: &mut Vec<String>) -> usize {
    let dir = fixture(ctx, "create");
    let mut checked = 0;
    let Ok(rd) = std::fs::read_dir(&dir) else {
        problems.push("cannot list cli/tests/create".into());
        return 0;
    };
    let mut tomls: Vec<_> = rd.flatten().map(|e| e.path()).filter(|p| p.extension().map(|e| e == "toml").unwrap_or(false)).collect();
    tomls.sort();
    for toml in tomls {
        let text = std::fs::read_to_string(&toml).unwrap_or_default();
        if text.contains("status") {
            continue; // failing cases
        }
        let args = toml_args(&text);
        let Some(input) = args.iter().find(|a| a.ends_with(".bcf") || a.ends_with(".vcf") || a.ends_with(".vcf.gz")) else { continue };
        let path = ctx.repo.join("cli").join(input);
        let cs = if input.ends_with(".bcf") {
            match load_bcf(&path) {
                Ok(c) => c,
                Err(e) => {
                    problems.push(format!("cannot decode {input}: {e}"));
                    continue;
                }
            }
        } else if input.ends_with(".gz") {
            parse_vcf_text(&String::from_utf8_lossy(&gunzip(&std::fs::read(&path).unwrap_or_default())))
        } else {
            parse_vcf_text(&std::fs::read_to_string(&path).unwrap_or_default())
        };
        let mut map = MapSpec::implicit_all(cs.samples.len());
        let mut project: Option<Vec<usize>> = None;
        let mut i = 0;
        while i < args.len() {
            match args[i].as_str() {
                "-s" | "--samples" => {
                    let pairs = args[i + 1].split(',').map(|p| match p.split_once('=') {
                        Some((s, l)) => (s.to_string(), Some(l.to_string())),
                        None => (p.to_string(), None),
                    });
                    match map_from_pairs(&cs, pairs.collect()) {
                        Some(m) => map = m,
                        None => {
                            problems.push(format!("{}: unknown sample in list", toml.display()));
                        }
                    }
                    i += 1;
                }
                "-S" | "--samples-file" => {
                    let f = std::fs::read_to_string(ctx.repo.join("cli").join(&args[i + 1])).unwrap_or_default();
                    let pairs = f.lines().map(|l| match l.split_once('\t') {
                        Some((s, p)) => (s.to_string(), Some(p.to_string())),
                        None => (l.to_string(), None),
                    });
                    match map_from_pairs(&cs, pairs.collect()) {
                        Some(m) => map = m,
                        None => problems.push(format!("{}: unknown sample in file", toml.display())),
                    }
                    i += 1;
                }
                "-p" | "--project-individuals" => {
                    project = Some(args[i + 1].split(',').map(|v| 2 * v.parse::<usize>().unwrap()).collect());
                    i += 1;
                }
                "--project-shape" => {
                    project = Some(args[i + 1].split(',').map(|v| v.parse::<usize>().unwrap() - 1).collect());
                    i += 1;
                }
                _ => {}
            }
            i += 1;
        }
        let golden = std::fs::read_to_string(toml.with_extension("stdout")).unwrap_or_default();
        let Ok(gold) = parse_text_spectrum(&golden) else { continue };
        let want = create(&cs, &map, project.as_deref());
        if want.spectrum.shape != gold.shape {
            problems.push(format!("{}: model shape {:?}, golden {:?}", toml.display(), want.spectrum.shape, gold.shape));
            continue;
        }
        let decimals = gold.tokens.first().and_then(|t| t.split_once('.')).map(|(_, f)| f.len()).unwrap_or(0);
        let tol = 0.5 * 10f64.powi(-(decimals as i32)) + 1e-9;
        for (k, (m, g)) in want.spectrum.values.iter().zip(&gold.values).enumerate() {
            if (m - g).abs() > tol {
                problems.push(format!("{}: cell {k}: model {m}, golden {g}", toml.display()));
                break;
            }
        }
        checked += 1;
    }
    checked
}

fn weighted_2d(spec: &Spec) -> (f64, f64) {
    // f2 and Hudson's Fst with every cell as a weighted site
    let (n1, n2) = ((spec.shape[0] - 1) as f64, (spec.shape[1] - 1) as f64);
    let total: f64 = spec.values.iter().sum();
    let (mut f2, mut num, mut den) = (0.0, 0.0, 0.0);
    for i in 0..spec.shape[0] {
        for j in 0..spec.shape[1] {
            let w = spec.values[i * spec.shape[1] + j];
            let (p, q) = (i as f64 / n1, j as f64 / n2);
            f2 += w * (p - q) * (p - q);
            num += w * ((p - q) * (p - q) - p * (1.0 - p) / (n1 - 1.0) - q * (1.0 - q) / (n2 - 1.0));
            den += w * (p * (1.0 - q) + q * (1.0 - p));
        }
    }
    (f2 / total, num / den)
}

pub fn run(ctx: &Ctx) -> i32 {
    let mut problems: Vec<String> = Vec::new();

    // 1. estimator formulas against the textbook values quoted in the repository's unit tests
    {
        let mut ward = vec![0.0; 64];
        for (i, v) in [(1, 6), (2, 2), (3, 3), (4, 1), (6, 4), (7, 1), (10, 1), (12, 2), (13, 1), (23, 1), (24, 1), (25, 1), (28, 2)] {
            ward[i] = v as f64;
        }
        ward[0] = 360.0 - ward.iter().sum::<f64>();
        let e = estimators(&ward);
        if (e.theta_w - 5.517367).abs() > 1e-6 || (e.pi - 5.285202).abs() > 1e-6 {
            problems.push(format!("Ward data: theta_w {} pi {}", e.theta_w, e.pi));
        }
        let aq: Vec<f64> = [0, 34, 6, 4, 0, 0, 0, 0].iter().map(|v| *v as f64).collect();
        let e = estimators(&aq);
        if (e.theta_w - 17.959184).abs() > 1e-6 || (e.pi - 14.857143).abs() > 1e-6 || (e.d_tajima.map(|d| d.0).unwrap_or(0.0) + 0.995875).abs() > 1e-6 {
            problems.push(format!("Aquadro data: theta_w {} pi {} D {:?}", e.theta_w, e.pi, e.d_tajima));
        }
        let mut ham: Vec<f64> = [0, 1, 11, 4, 7, 2, 0, 0, 0, 0, 0, 0].iter().map(|v| *v as f64).collect();
        let e = estimators(&ham);
        if (e.d_tajima.map(|d| d.0).unwrap_or(0.0) - 0.885737).abs() > 1e-6 {
            problems.push(format!("Hamblin data: Tajima's D {:?}", e.d_tajima));
        }
        ham[8] += 1.0;
        ham[3] += 1.0;
        let e = estimators(&ham);
        if (e.d_fu_li.map(|d| d.0).unwrap_or(0.0) - 1.693537).abs() > 1e-6 {
            problems.push(format!("Hamblin (modified) data: Fu and Li's D {:?} (Durrett: 1.68)", e.d_fu_li));
        }
    }

    // 2. two-population statistics against the golden stat outputs
    {
        let text = std::fs::read_to_string(fixture(ctx, "stat/two_populations.sfs")).unwrap_or_default();
        match parse_text_spectrum(text.trim_end_matches('\n').to_string().as_str()).or_else(|_| parse_text_spectrum(&text)) {
            Ok(t) => {
                let (f2, fst) = weighted_2d(&Spec::new(t.shape, t.values));
                if (f2 - 0.304367).abs() > 1e-6 || (fst - 0.401117).abs() > 1e-6 {
                    problems.push(format!("two_populations.sfs: f2 {f2} (golden 0.304367), fst {fst} (golden 0.401117)"));
                }
            }
            Err(e) => problems.push(format!("cannot parse two_populations.sfs: {e}")),
        }
        // relatedness golden: r0 1.5, r1 0.068966, king -0.133333 on [[0,1,2],[10,2,12],[1,3,4]]
        let t = [[0.0, 1.0, 2.0], [10.0, 2.0, 12.0], [1.0, 3.0, 4.0]];
        let (b, c, d, e, f, g, h) = (t[0][1], t[0][2], t[1][0], t[1][1], t[1][2], t[2][0], t[2][1]);
        let (r0, r1, king) = ((c + g) / e, e / (b + d + h + f + c + g), (e - 2.0 * (c + g)) / (b + d + h + f + 2.0 * e));
        if (r0 - 1.5f64).abs() > 1e-6 || (r1 - 0.068966f64).abs() > 1e-6 || (king + 0.133333f64).abs() > 1e-6 {
            problems.push(format!("kinship formulas: r0 {r0} r1 {r1} king {king}"));
        }
    }

    // 3. the BCF encoder reproduces the record bytes bcftools wrote for simple.vcf
    {
        let cs = parse_vcf_text(&std::fs::read_to_string(fixture(ctx, "create/simple.vcf")).unwrap_or_default());
        let raw = gunzip(&std::fs::read(fixture(ctx, "create/simple.bcf")).unwrap_or_default());
        if raw.len() > 9 && cs.records.len() == 5 {
            let l_text = u32::from_le_bytes(raw[5..9].try_into().unwrap()) as usize;
            let fixture_records = &raw[9 + l_text..];
            let mut mine = Vec::new();
            for r in &cs.records {
                mine.extend(mybcf::record_bytes_with_gt_idx(&cs, r, 1));
            }
            if mine != fixture_records {
                problems.push(format!("BCF encoder: record bytes differ from simple.bcf (mine {} bytes, fixture {} bytes)", mine.len(), fixture_records.len()));
            }
        } else {
            problems.push("cannot load simple.vcf / simple.bcf".into());
        }
    }

    // 4. the create model reproduces every golden create output it can load
    let goldens = check_create_goldens(ctx, &mut problems);
    if goldens < 10 {
        problems.push(format!("only {goldens} golden create cases could be checked"));
    }

    // 5. the npy validator accepts the repository's npy fixtures and agrees with their text twins
    for (npy_file, txt) in [("view/three_populations.npy", "view/three_populations.sfs"), ("fold/two_populations.npy", "fold/two_populations.sfs")] {
        let bytes = std::fs::read(fixture(ctx, npy_file)).unwrap_or_default();
        match npy::validate_sfs_output(&bytes) {
            Ok((shape, bits)) => {
                if let Ok(t) = parse_text_spectrum(&std::fs::read_to_string(fixture(ctx, txt)).unwrap_or_default()) {
                    let vals: Vec<f64> = bits.iter().map(|b| f64::from_bits(*b)).collect();
                    if t.shape != shape || t.values.iter().zip(&vals).any(|(a, b)| (a - b).abs() > 1e-6 && !(a.is_nan() && b.is_nan()) && !(a.is_infinite() && b.is_infinite())) {
                        problems.push(format!("{npy_file} and {txt} disagree"));
                    }
                }
            }
            Err(e) => problems.push(format!("npy validator rejects the fixture {npy_file}: {e}")),
        }
    }

    if problems.is_empty() {
        println!("selftest ok: textbook estimators, golden statistics, BCF encoder vs bcftools bytes, {goldens} golden create outputs, npy fixtures");
        0
    } else {
        for p in &problems {
            println!("SELFTEST-PROBLEM: {p}");
        }
        2
    }
}
