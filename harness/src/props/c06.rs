//! C06 — statistics equal their definitions on genotypes and the published estimators.

use proptest::prelude::*;
use serde::{Deserialize, Serialize};

use crate::{
    cli::{self, Input},
    engine::{guard, pick_idx, Ctx, Failure, Part, Pass, RandomPart, Verdict},
    gen::callset::{callset_strategy, make_selected_diploid, map_draw_strategy, resolve_map, CallSet, GenParams, GtClass, MapSpec},
    model::{create::create, spec::Spec},
    props::{
        common::{run_create, Container, CreateOpts, Transport},
        Check,
    },
};

pub const ALL_STATS: [&str; 14] = ["d-fu-li", "d-tajima", "f2", "f3", "f4", "fst", "pi", "pi-xy", "king", "r0", "r1", "s", "sum", "theta"];

/// Compensated (Neumaier) sum.
fn ksum(it: impl IntoIterator<Item = f64>) -> f64 {
    let mut s = 0.0f64;
    let mut c = 0.0f64;
    for x in it {
        let t = s + x;
        if s.abs() >= x.abs() {
            c += (s - t) + x;
        } else {
            c += (x - t) + s;
        }
        s = t;
    }
    s + c
}

/// Estimators on a one-axis count spectrum xi[0..=n], re-derived from the papers' notation.
pub struct Estimators {
    pub s: f64,
    pub theta_w: f64,
    pub pi: f64,
    pub d_tajima: Option<(f64, f64)>,
    pub d_fu_li: Option<(f64, f64)>,
}

pub fn estimators(xi: &[f64]) -> Estimators {
    let n = xi.len() - 1; // chromosomes
    let nf = n as f64;
    let s = ksum(xi[1..n].iter().copied());
    let a1 = ksum((1..n).map(|i| 1.0 / i as f64));
    let a2 = ksum((1..n).map(|i| 1.0 / (i as f64 * i as f64)));
    let theta_w = s / a1;
    // mean pairwise differences: sum_i xi_i * i (n - i) / (n (n-1) / 2)
    let pairs = nf * (nf - 1.0) / 2.0;
    let pi = ksum((1..n).map(|i| xi[i] * (i as f64) * ((n - i) as f64))) / pairs;
    // Tajima (1989), equations 37-38 and the constants b1, b2, c1, c2, e1, e2
    let d_tajima = if n >= 2 && s > 0.0 {
        let b1 = (nf + 1.0) / (3.0 * (nf - 1.0));
        let b2 = 2.0 * (nf * nf + nf + 3.0) / (9.0 * nf * (nf - 1.0));
        let c1 = b1 - 1.0 / a1;
        let c2 = b2 - (nf + 2.0) / (a1 * nf) + a2 / (a1 * a1);
        let e1 = c1 / a1;
        let e2 = c2 / (a1 * a1 + a2);
        let var = e1 * s + e2 * s * (s - 1.0);
        if var > 0.0 {
            Some(((pi - theta_w) / var.sqrt(), (pi.abs() + theta_w.abs()) / var.sqrt()))
        } else {
            None
        }
    } else {
        None
    };
    // Fu and Li (1993): D = (S - a_n * eta_e) / sqrt(u_D S + v_D S^2), eta_e = derived singletons
    let d_fu_li = if n >= 3 && s > 0.0 {
        let eta_e = xi[1];
        let cn = 2.0 * (nf * a1 - 2.0 * (nf - 1.0)) / ((nf - 1.0) * (nf - 2.0));
        let vd = 1.0 + (a1 * a1) / (a2 + a1 * a1) * (cn - (nf + 1.0) / (nf - 1.0));
        let ud = a1 - 1.0 - vd;
        let var = ud * s + vd * s * s;
        if var > 0.0 {
            Some(((s - a1 * eta_e) / var.sqrt(), (s.abs() + (a1 * eta_e).abs()) / var.sqrt()))
        } else {
            None
        }
    } else {
        None
    };
    Estimators { s, theta_w, pi, d_tajima, d_fu_li }
}

fn run_stat(ctx: &Ctx, dir: &std::path::Path, stats: &[&str], file: &str) -> Result<Vec<f64>, Failure> {
    let list = stats.join(",");
    let run = cli::sfs(ctx, &["stat", "-s", &list, "--precision", "12", file], Input::Null, dir);
    ensure!(run.ok(), "`sfs stat -s {list} --precision 12 {file}` failed: {}", run.describe());
    let text = run.stdout_str();
    let vals: Result<Vec<f64>, _> = text.trim_end_matches('\n').split(',').map(|t| t.parse::<f64>()).collect();
    match vals {
        Ok(v) if v.len() == stats.len() => Ok(v),
        _ => Err(Failure::new(format!("`sfs stat -s {list}` printed {text:?}, expected {} comma-separated numbers", stats.len()))),
    }
}

fn check_value(name: &str, got: f64, want: f64, scale: f64, context: &str) -> Result<(), Failure> {
    let tol = 0.5e-12 + 1e-10 * (1.0 + want.abs()) + 1e-10 * scale;
    ensure!(got.is_finite() == want.is_finite() && (got - want).abs() <= tol, "{name} = {got}, the definition evaluated directly on the genotypes / the published formula gives {want} ({context})");
    Ok(())
}

// ---------------------------------------------------------------------------------------------
// Part A: definitions on genotypes

#[derive(Clone, Debug, Serialize, Deserialize)]
pub struct GenoCase {
    pub cs: CallSet,
    pub map: MapSpec,
}

fn geno_strategy() -> impl Strategy<Value = GenoCase> {
    let params = GenParams {
        max_records: 40,
        max_samples: 10,
        odd_ploidy: false,
        missing_weight: 2,
        multi_weight: 2,
        no_gt_per_256: 2,
    };
    (callset_strategy(params), map_draw_strategy(10), any::<u8>(), any::<u16>(), any::<u16>()).prop_map(|(mut cs, mut draw, kind, a, b)| {
        let n = cs.samples.len();
        let all = vec![true; n];
        make_selected_diploid(&mut cs, &all);
        // population structure by kind: 1, 2, 3, 4 populations or two single-sample populations
        let map = match kind % 8 {
            0 | 1 if n >= 2 => {
                // kinship: two single-sample populations
                let i = pick_idx(a, n);
                let mut j = pick_idx(b, n - 1);
                if j >= i {
                    j += 1;
                }
                MapSpec {
                    entries: vec![(i, Some(0)), (j, Some(1))],
                    labels: vec!["indA".into(), "indB".into()],
                    as_file: false,
                }
            }
            2 => {
                draw.n_labels = 0;
                resolve_map(&draw, n)
            }
            k => {
                // d populations, every label used at least once, sizes unequal by chance
                let d = [2usize, 2, 3, 4, 4][(k as usize + 2) % 5].min(n);
                let order: Vec<usize> = draw.order.iter().copied().filter(|&i| i < n).collect();
                let entries = order
                    .iter()
                    .enumerate()
                    .map(|(pos, &s)| (s, Some(if pos < d { pos } else { pick_idx((draw.label_draws[pos % draw.label_draws.len()] as u16) << 8, d) })))
                    .collect();
                MapSpec {
                    entries,
                    labels: (0..d).map(|i| format!("pop{i}")).collect(),
                    as_file: draw.as_file,
                }
            }
        };
        GenoCase { cs, map }
    })
}

/// Per counted record: ALT count per population (haplotypes are then a_j ones and n_j - a_j zeros).
fn counted_sites(cs: &CallSet, map: &MapSpec) -> Vec<Vec<usize>> {
    let assignment = map.assignment(cs.samples.len());
    let d = map.pop_sizes().len();
    let mut out = Vec::new();
    'rec: for r in &cs.records {
        let mut alt = vec![0usize; d];
        for (i, a) in assignment.iter().enumerate() {
            if let Some(p) = a {
                match r.gt_of(i).class() {
                    GtClass::Call(k) => alt[*p] += k as usize,
                    _ => continue 'rec,
                }
            }
        }
        out.push(alt);
    }
    out
}

/// Number of differing pairs among all chromosome pairs, by explicit enumeration.
fn differing_pairs(haps_a: &[u8], haps_b: Option<&[u8]>) -> (usize, usize) {
    let mut diff = 0;
    let mut total = 0;
    match haps_b {
        None => {
            for i in 0..haps_a.len() {
                for j in i + 1..haps_a.len() {
                    total += 1;
                    if haps_a[i] != haps_a[j] {
                        diff += 1;
                    }
                }
            }
        }
        Some(b) => {
            for x in haps_a {
                for y in b {
                    total += 1;
                    if x != y {
                        diff += 1;
                    }
                }
            }
        }
    }
    (diff, total)
}

fn haplotypes(alt: usize, n: usize) -> Vec<u8> {
    (0..n).map(|i| (i < alt) as u8).collect()
}

fn eval_geno(ctx: &Ctx, case: &GenoCase) -> Verdict {
    let dir = ctx.worker_dir(crate::engine::worker_id());
    let sizes = case.map.pop_sizes();
    let d = sizes.len();
    let chrom: Vec<usize> = sizes.iter().map(|s| 2 * s).collect();
    let opts = CreateOpts {
        map: Some(case.map.clone()),
        ..Default::default()
    };
    let (run, argv) = run_create(ctx, &dir, "c06", &case.cs, &Container::Vcf, &opts, Transport::Path);
    ensure!(run.ok(), "`sfs {}` failed: {}", argv.join(" "), run.describe());
    std::fs::write(dir.join("c06.sfs"), &run.stdout).expect("write");
    let sites = counted_sites(&case.cs, &case.map);
    let nsites = sites.len() as f64;
    let context = format!("`sfs {}`, population sizes {sizes:?}, {} counted records", argv.join(" "), sites.len());
    let polymorphic = sites.iter().filter(|a| {
        let t: usize = a.iter().sum();
        t > 0 && t < chrom.iter().sum::<usize>()
    }).count();
    let freq = |site: &Vec<usize>, j: usize| site[j] as f64 / chrom[j] as f64;
    let mut pass = Pass::new();
    let mut compared: Vec<&str> = Vec::new();

    // statistics defined for every dimensionality
    {
        let got = run_stat(ctx, &dir, &["sum", "s"], "c06.sfs")?;
        check_value("sum", got[0], nsites, 0.0, &context)?;
        check_value("S", got[1], polymorphic as f64, 0.0, &context)?;
        compared.extend(["sum", "s"]);
    }
    match d {
        1 => {
            let n = chrom[0];
            let mut pi = 0.0;
            let mut xi = vec![0.0; n + 1];
            for s in &sites {
                let (diff, total) = differing_pairs(&haplotypes(s[0], n), None);
                pi += diff as f64 / total as f64;
                xi[s[0]] += 1.0;
            }
            let got = run_stat(ctx, &dir, &["pi", "theta"], "c06.sfs")?;
            check_value("pi", got[0], pi, 0.0, &context)?;
            let a_n = ksum((1..n).map(|i| 1.0 / i as f64));
            check_value("theta (Watterson)", got[1], polymorphic as f64 / a_n, 0.0, &context)?;
            compared.extend(["pi", "theta"]);
            let est = estimators(&xi);
            if let Some((dt, scale)) = est.d_tajima {
                let got = run_stat(ctx, &dir, &["d-tajima"], "c06.sfs")?;
                check_value("Tajima's D", got[0], dt, scale, &context)?;
                compared.push("d-tajima");
            }
            if n >= 3 {
                if let Some((df, scale)) = est.d_fu_li {
                    let got = run_stat(ctx, &dir, &["d-fu-li"], "c06.sfs")?;
                    check_value("Fu and Li's D", got[0], df, scale, &context)?;
                    compared.push("d-fu-li");
                }
            }
        }
        2 => {
            let mut pixy = 0.0;
            let mut f2 = 0.0;
            let (mut num, mut den) = (0.0, 0.0);
            for s in &sites {
                let (diff, total) = differing_pairs(&haplotypes(s[0], chrom[0]), Some(&haplotypes(s[1], chrom[1])));
                pixy += diff as f64 / total as f64;
                let (p, q) = (freq(s, 0), freq(s, 1));
                f2 += (p - q) * (p - q);
                num += (p - q) * (p - q) - p * (1.0 - p) / (chrom[0] as f64 - 1.0) - q * (1.0 - q) / (chrom[1] as f64 - 1.0);
                den += p * (1.0 - q) + q * (1.0 - p);
            }
            let got = run_stat(ctx, &dir, &["pi-xy"], "c06.sfs")?;
            check_value("pi_xy", got[0], pixy, 0.0, &context)?;
            compared.push("pi-xy");
            if nsites > 0.0 {
                let got = run_stat(ctx, &dir, &["f2"], "c06.sfs")?;
                check_value("f2", got[0], f2 / nsites, 0.0, &context)?;
                compared.push("f2");
                // several statistics in one invocation, a frequency-based one in front of the
                // scale-dependent ones and behind them: every value still equals its definition
                let got = run_stat(ctx, &dir, &["f2", "sum", "pi-xy", "s", "f2"], "c06.sfs")?;
                for (k, (name, want)) in [("f2 (first of a list)", f2 / nsites), ("sum (after f2 in one list)", nsites), ("pi_xy (after f2 in one list)", pixy), ("S (after f2 in one list)", polymorphic as f64), ("f2 (last of a list)", f2 / nsites)].into_iter().enumerate() {
                    check_value(name, got[k], want, 0.0, &context)?;
                }
                if den > 0.0 {
                    let got = run_stat(ctx, &dir, &["pi-xy", "fst", "sum", "s", "pi-xy"], "c06.sfs")?;
                    for (k, (name, want, scale)) in [("pi_xy (first of a list)", pixy, 0.0), ("Hudson's Fst (inside a list)", num / den, num.abs() / den), ("sum (after fst in one list)", nsites, 0.0), ("S (after fst in one list)", polymorphic as f64, 0.0), ("pi_xy (after fst in one list)", pixy, 0.0)].into_iter().enumerate() {
                        check_value(name, got[k], want, scale, &context)?;
                    }
                }
                if den > 0.0 {
                    let got = run_stat(ctx, &dir, &["fst"], "c06.sfs")?;
                    check_value("Hudson's Fst", got[0], num / den, num.abs() / den, &context)?;
                    compared.push("fst");
                }
            }
            if sizes == [1, 1] {
                // 3x3 tally of genotype pairs (Waples et al. 2019)
                let mut t = [[0.0f64; 3]; 3];
                for s in &sites {
                    t[s[0]][s[1]] += 1.0;
                }
                let (b, c, dd, e, f, g, h) = (t[0][1], t[0][2], t[1][0], t[1][1], t[1][2], t[2][0], t[2][1]);
                if e > 0.0 {
                    let got = run_stat(ctx, &dir, &["r0"], "c06.sfs")?;
                    check_value("R0", got[0], (c + g) / e, 0.0, &context)?;
                    compared.push("r0");
                }
                if b + dd + h + f + c + g > 0.0 {
                    let got = run_stat(ctx, &dir, &["r1"], "c06.sfs")?;
                    check_value("R1", got[0], e / (b + dd + h + f + c + g), 0.0, &context)?;
                    compared.push("r1");
                }
                if b + dd + h + f + 2.0 * e > 0.0 {
                    let got = run_stat(ctx, &dir, &["king"], "c06.sfs")?;
                    check_value("KING", got[0], (e - 2.0 * (c + g)) / (b + dd + h + f + 2.0 * e), 0.0, &context)?;
                    compared.push("king");
                }
            }
        }
        3 if nsites > 0.0 => {
            let f3: f64 = sites.iter().map(|s| (freq(s, 0) - freq(s, 1)) * (freq(s, 0) - freq(s, 2))).sum::<f64>() / nsites;
            let got = run_stat(ctx, &dir, &["f3"], "c06.sfs")?;
            check_value("f3", got[0], f3, 0.0, &context)?;
            compared.push("f3");
            let got = run_stat(ctx, &dir, &["f3", "sum", "s"], "c06.sfs")?;
            for (k, (name, want)) in [("f3 (first of a list)", f3), ("sum (after f3 in one list)", nsites), ("S (after f3 in one list)", polymorphic as f64)].into_iter().enumerate() {
                check_value(name, got[k], want, 0.0, &context)?;
            }
        }
        4 if nsites > 0.0 => {
            let f4: f64 = sites.iter().map(|s| (freq(s, 0) - freq(s, 1)) * (freq(s, 2) - freq(s, 3))).sum::<f64>() / nsites;
            let got = run_stat(ctx, &dir, &["f4"], "c06.sfs")?;
            check_value("f4", got[0], f4, 0.0, &context)?;
            compared.push("f4");
            let got = run_stat(ctx, &dir, &["s", "f4", "sum", "s"], "c06.sfs")?;
            for (k, (name, want)) in [("S (first of a list)", polymorphic as f64), ("f4 (inside a list)", f4), ("sum (after f4 in one list)", nsites), ("S (after f4 in one list)", polymorphic as f64)].into_iter().enumerate() {
                check_value(name, got[k], want, 0.0, &context)?;
            }
        }
        _ => {}
    }
    // cross-check the spectrum itself against the reference model (so that a wrong spectrum is not
    // blamed on a statistic)
    let want = create(&case.cs, &case.map, None);
    let got = cli::expect_spectrum(&run, "create")?;
    ensure!(got.values == want.spectrum.values, "create output differs from the reference model");

    let unequal = d >= 2 && sizes.iter().any(|s| *s != sizes[0]);
    let kin = sizes == [1, 1];
    pass.nontrivial = polymorphic >= 5 && (unequal || d == 1 || kin && compared.contains(&"king") && compared.contains(&"r0") && compared.contains(&"r1"));
    for c in compared {
        pass.add_label(format!("compared:{c}"));
    }
    pass.add_label(format!("populations={d}"));
    Ok(pass)
}

// ---------------------------------------------------------------------------------------------
// Part B: estimator formulas on one-axis count spectra (library and CLI)

#[derive(Clone, Debug, Serialize, Deserialize)]
pub struct SpectrumCase {
    /// chromosomes
    pub n: usize,
    pub counts: Vec<u32>,
    pub via_cli: bool,
}

fn spectrum_strategy(cli_share: f64) -> impl Strategy<Value = SpectrumCase> {
    (
        prop_oneof![3 => 3usize..=40, 2 => 41usize..=175, 1 => 176usize..=600, 1 => prop_oneof![Just(169usize), Just(170), Just(171), Just(172), Just(3), Just(4)],
            // genome-scale sample sizes, and sizes beside 512 / 1024 / 4096 (tables, asymptotic shortcuts)
            1 => prop_oneof![Just(511usize), Just(512), Just(513), Just(1023), Just(1024), Just(1025), Just(4096), Just(4097), 601usize..=5000]],
        prop::collection::vec(prop_oneof![2 => Just(0u32), 3 => 0u32..20, 1 => 0u32..5000], 601),
        prop::bool::weighted(cli_share),
    )
        .prop_map(|(n, mut counts, via_cli)| {
            counts.truncate(n + 1);
            while counts.len() < n + 1 {
                let k = counts.len();
                counts.push(counts[(k * 7 + k / 601) % 601]);
            }
            SpectrumCase { n, counts, via_cli }
        })
}

fn eval_spectrum(ctx: &Ctx, case: &SpectrumCase) -> Verdict {
    let xi: Vec<f64> = case.counts.iter().map(|c| *c as f64).collect();
    let est = estimators(&xi);
    let context = format!("one-axis count spectrum of n = {} chromosomes, S = {}", case.n, est.s);
    let mut pass = Pass::new();
    let (theta, pi, dt, dfl) = if case.via_cli {
        let dir = ctx.worker_dir(crate::engine::worker_id());
        std::fs::write(dir.join("b.sfs"), crate::props::common::text_bytes_exact(&Spec::new(vec![case.n + 1], xi.clone()))).expect("write");
        let v = run_stat(ctx, &dir, &["theta", "pi", "s", "sum"], "b.sfs")?;
        check_value("S", v[2], est.s, 0.0, &context)?;
        check_value("sum", v[3], ksum(xi.iter().copied()), 0.0, &context)?;
        let dt = if est.d_tajima.is_some() { Some(run_stat(ctx, &dir, &["d-tajima"], "b.sfs")?[0]) } else { None };
        let dfl = if est.d_fu_li.is_some() { Some(run_stat(ctx, &dir, &["d-fu-li"], "b.sfs")?[0]) } else { None };
        pass.add_label("via-cli");
        (v[0], v[1], dt, dfl)
    } else {
        let scs = Spec::new(vec![case.n + 1], xi.clone()).to_scs();
        let r = guard(|| (scs.theta_watterson(), scs.pi(), scs.d_tajima(), scs.d_fu_li(), scs.segregating_sites())).map_err(Failure::new)?;
        let f = |x: Result<f64, _>, name: &str| x.map_err(|_| Failure::new(format!("{name} returned an error on a one-axis spectrum")));
        check_value("segregating_sites", r.4, est.s, 0.0, &context)?;
        pass.add_label("via-library");
        (f(r.0, "theta_watterson")?, f(r.1, "pi")?, Some(f(r.2, "d_tajima")?), Some(f(r.3, "d_fu_li")?))
    };
    check_value("Watterson's theta", theta, est.theta_w, 0.0, &context)?;
    check_value("pi", pi, est.pi, 0.0, &context)?;
    pass.add_label("compared:theta");
    pass.add_label("compared:pi");
    if let (Some((want, scale)), Some(got)) = (est.d_tajima, dt) {
        check_value("Tajima's D", got, want, scale, &context)?;
        pass.add_label("compared:d-tajima");
    }
    if let (Some((want, scale)), Some(got)) = (est.d_fu_li, dfl) {
        check_value("Fu and Li's D", got, want, scale, &context)?;
        pass.add_label("compared:d-fu-li");
    }
    let interior_nonzero = xi[1..case.n].iter().filter(|v| **v > 0.0).count();
    pass.nontrivial = est.s >= 2.0 && interior_nonzero >= 2;
    pass.add_label(if case.n <= 170 { "n<=170" } else { "n>170" });
    Ok(pass)
}

pub fn check(ctx: &Ctx) -> Check {
    let min_per_stat = ctx.tier.pick(200u64, 5000);
    let parts: Vec<Box<dyn Part>> = vec![
        Box::new(RandomPart {
            name: "definitions-on-genotypes",
            rule: "call sets with 1..4 populations of unequal size (and two single-sample populations for the 3x3 kinship statistics), `sfs create` -> file -> `sfs stat --precision 12`; the harness expands every counted record into haplotypes and evaluates each quantity literally (pair enumeration for pi / pi_xy, per-site allele-frequency products for f2/f3/f4, summed per-site Hudson terms, a direct 3x3 tally for R0/R1/KING, counts for S and sum); for two to four populations also several statistics in one invocation with a frequency-based one (f2, fst, f3, f4) in front of, between and behind the scale-dependent ones (sum, S, pi_xy), each printed value against its own definition; a statistic whose defining denominator is 0 on the data is not compared; non-trivial = >=5 polymorphic counted records and (unequal population sizes | one population | the kinship case with all three ratios defined)",
            cases: ctx.tier.pick(3200, 100_000),
            strategy: Box::new(|| geno_strategy().boxed()),
            eval: Box::new(eval_geno),
        }),
        Box::new(RandomPart {
            name: "estimator-formulas",
            rule: "one-axis count spectra, n from 3 to 600 chromosomes (edges 169..172 forced; one case in eight with 511..513, 1023..1025, 4096/4097 or 601..5000 chromosomes), random integer counts with zeros: Watterson's theta, pi, Tajima's D (1989 constants) and Fu and Li's D (1993 constants) re-derived from the papers' notation with compensated sums, through the library and (20%) through `sfs stat`; D compared with a tolerance scaled by the cancelling terms; non-trivial = S >= 2 and >= 2 non-zero interior classes",
            cases: ctx.tier.pick(8000, 400_000),
            strategy: Box::new(|| spectrum_strategy(0.2).boxed()),
            eval: Box::new(eval_spectrum),
        }),
    ];
    Check {
        parts,
        level: "exploration",
        assumptions: vec![
            "definitions: S = sites not fixed among the selected samples; pi / pi_xy = mean pairwise differences; f2/f3/f4 = site means of (p0-p1)^2, (p0-p1)(p0-p2), (p0-p1)(p2-p3); Hudson's Fst per Bhatia et al. (2013) as ratio of sums; R0/R1/KING per Waples et al. (2019); Tajima (1989); Fu and Li (1993)",
            "tolerance 0.5e-12 + 1e-10(1+|x|), for D scaled by (|theta1|+|theta2|)/sqrt(var)",
        ],
        post: Some(Box::new(move |report| {
            let mut counts = std::collections::BTreeMap::new();
            for p in &report.parts {
                for (l, n) in &p.labels {
                    if let Some(s) = l.strip_prefix("compared:") {
                        *counts.entry(s.to_string()).or_insert(0u64) += n;
                    }
                }
            }
            let starved: Vec<String> = ALL_STATS.iter().filter(|s| counts.get(**s).copied().unwrap_or(0) < min_per_stat).map(|s| format!("{s}={}", counts.get(*s).copied().unwrap_or(0))).collect();
            if starved.is_empty() {
                Ok(serde_json::json!({ "comparisons_per_statistic": counts }))
            } else {
                Err(format!("statistics compared fewer than {min_per_stat} times: {starved:?}"))
            }
        })),
    }
}
