//! C11 — a site's contribution is independent of earlier sites (additive, order-free).

use proptest::prelude::*;
use serde::{Deserialize, Serialize};

use sfs_core::{
    array::Shape,
    input::{
        genotype::{self, Genotype},
        sample::Population,
        site::{
            self,
            reader::builder::{Project, Samples},
            Site,
        },
        ReadStatus, Sample,
    },
    Scs,
};

use crate::{
    cli,
    engine::{guard, pick_idx, Ctx, Failure, Part, Pass, RandomPart, Verdict},
    gen::callset::{callset_strategy, force_record_classes, make_selected_diploid, map_draw_strategy, resolve_map, CallSet, GenParams, Gt, GtClass, MapSpec, Record},
    model::{create::create, spec::Spec},
    props::{
        c02::{called_totals, resolve_targets, target_draw_strategy},
        common::{run_create, Container, CreateOpts, Projection, Transport},
        Check,
    },
};

/// In-memory genotype reader implementing the public `genotype::Reader` trait.
struct MemReader {
    samples: Vec<Sample>,
    records: Vec<(String, usize, Vec<genotype::Result>)>,
    next: usize,
}

impl genotype::Reader for MemReader {
    fn current_contig(&self) -> &str {
        if self.next == 0 {
            "[none]"
        } else {
            &self.records[self.next - 1].0
        }
    }
    fn current_position(&self) -> usize {
        if self.next == 0 {
            0
        } else {
            self.records[self.next - 1].1
        }
    }
    fn read_genotypes(&mut self) -> ReadStatus<Vec<genotype::Result>> {
        if self.next < self.records.len() {
            self.next += 1;
            ReadStatus::Read(self.records[self.next - 1].2.clone())
        } else {
            ReadStatus::Done
        }
    }
    fn samples(&self) -> &[Sample] {
        &self.samples
    }
}

fn to_result(gt: &Gt) -> genotype::Result {
    match gt.class() {
        GtClass::Call(0) => genotype::Result::Genotype(Genotype::Zero),
        GtClass::Call(1) => genotype::Result::Genotype(Genotype::One),
        GtClass::Call(_) => genotype::Result::Genotype(Genotype::Two),
        GtClass::Missing | GtClass::MissingAndMultiallelic => genotype::Result::Skipped(genotype::Skipped::Missing),
        GtClass::Multiallelic => genotype::Result::Skipped(genotype::Skipped::Multiallelic),
        GtClass::NotDiploid => genotype::Result::Error(genotype::Error::PloidyError),
    }
}

pub(crate) fn build_reader(cs: &CallSet, records: &[Record], map: &MapSpec, project: Option<&[usize]>) -> Result<site::Reader, Failure> {
    let mem = MemReader {
        samples: cs.samples.iter().map(Sample::from).collect(),
        records: records.iter().map(|r| (cs.contigs[r.contig].clone(), r.pos as usize, (0..cs.samples.len()).map(|i| to_result(&r.gt_of(i))).collect())).collect(),
        next: 0,
    };
    let list: Vec<(Sample, Population)> = map
        .entries
        .iter()
        .map(|(s, l)| (Sample::from(&cs.samples[*s]), match l {
            Some(l) => Population::from(Some(&map.labels[*l])),
            None => Population::Unnamed,
        }))
        .collect();
    let builder = site::reader::Builder::default()
        .set_samples(Some(Samples::List(list)))
        .set_project(project.map(|m| Project::Shape(Shape(m.iter().map(|m| m + 1).collect()))));
    match guard(|| builder.build(Box::new(mem))) {
        Ok(Ok(r)) => Ok(r),
        Ok(Err(e)) => Err(Failure::new(format!("site reader builder failed: {e}"))),
        Err(p) => Err(Failure::new(format!("site reader builder: {p}"))),
    }
}

/// Contribution of every record (None = skipped) as read in one stream, each applied to a zero spectrum.
fn stream_contributions(cs: &CallSet, records: &[Record], map: &MapSpec, project: Option<&[usize]>) -> Result<Vec<Option<Spec>>, Failure> {
    let mut reader = build_reader(cs, records, map, project)?;
    let mut out = Vec::new();
    loop {
        let step = guard(|| {
            let mut scs: Scs = reader.create_zero_scs();
            match reader.read_site() {
                ReadStatus::Read(Site::Standard(count)) => {
                    scs[count] += 1.0;
                    Ok(Some(Some(Spec::from_scs(&scs))))
                }
                ReadStatus::Read(Site::Projected(p)) => {
                    p.add_unchecked(&mut scs);
                    Ok(Some(Some(Spec::from_scs(&scs))))
                }
                ReadStatus::Read(Site::InsufficientData) => Ok(Some(None)),
                ReadStatus::Error(e) => Err(e.to_string()),
                ReadStatus::Done => Ok(None),
            }
        })
        .map_err(|p| Failure::new(format!("read_site at record {}: {p}", out.len())))?;
        match step {
            Ok(Some(c)) => out.push(c),
            Ok(None) => break,
            Err(e) => return Err(Failure::new(format!("read_site failed at record {}: {e}", out.len()))),
        }
    }
    Ok(out)
}

#[derive(Clone, Debug, Serialize, Deserialize)]
pub struct Case {
    pub cs: CallSet,
    pub map: MapSpec,
    pub m: Option<Vec<usize>>,
    pub perm_draws: Vec<u16>,
}

/// Record classes relative to the projection target (or to completeness without one).
fn classify(cs: &CallSet, map: &MapSpec, m: Option<&[usize]>) -> Vec<&'static str> {
    let totals = called_totals(cs, map);
    let sizes = map.pop_sizes();
    let assignment = map.assignment(cs.samples.len());
    cs.records
        .iter()
        .zip(&totals)
        .map(|(r, t)| {
            let multi = (0..cs.samples.len()).any(|i| assignment[i].is_some() && matches!(r.gt_of(i).class(), GtClass::Multiallelic | GtClass::MissingAndMultiallelic));
            let complete = t.iter().zip(&sizes).all(|(t, n)| *t == 2 * n);
            match m {
                Some(m) => {
                    if t.iter().zip(m).all(|(t, m)| t == m) {
                        "exactly-sufficient"
                    } else if t.iter().zip(m).all(|(t, m)| t >= m) {
                        if complete {
                            "complete(projected)"
                        } else if multi {
                            "multiallelic(projected)"
                        } else {
                            "partially-missing(projected)"
                        }
                    } else {
                        "insufficient"
                    }
                }
                None => {
                    if complete {
                        "complete"
                    } else if multi {
                        "multiallelic"
                    } else {
                        "partially-missing"
                    }
                }
            }
        })
        .collect()
}

fn strategy(max_records: usize) -> impl Strategy<Value = Case> {
    let params = GenParams {
        max_records,
        max_samples: 8,
        missing_weight: 25,
        multi_weight: 12,
        odd_ploidy: false,
        no_gt_per_256: 4,
    };
    (callset_strategy(params), map_draw_strategy(8), target_draw_strategy(), prop::bool::weighted(0.65), prop::collection::vec(any::<u16>(), 26)).prop_map(|(mut cs, mut draw, td, project, perm_draws)| {
        let n = cs.samples.len();
        if draw.n_labels > 2 {
            draw.n_labels = 2; // 1..3 populations
        }
        let map = resolve_map(&draw, n);
        let selected: Vec<bool> = map.assignment(n).iter().map(|a| a.is_some()).collect();
        force_record_classes(&mut cs, &selected);
        make_selected_diploid(&mut cs, &selected);
        let m = if project { Some(resolve_targets(&cs, &map, &td)) } else { None };
        Case { cs, map, m, perm_draws }
    })
}

/// The histories of `strategy`, over 5..8 populations (the listed samples one per label first, the
/// rest dealt out by the draws), projected in two cases out of three.
fn many_populations_strategy() -> impl Strategy<Value = Case> {
    strategy(14).prop_map(|mut case| {
        let n = case.cs.samples.len();
        if n < 5 {
            return case;
        }
        let d = &case.perm_draws;
        let k = 5 + pick_idx(d[0], n.min(8) - 4);
        let order = permutation(n, &d[1..]);
        let entries: Vec<(usize, Option<usize>)> = order.iter().enumerate().map(|(i, s)| (*s, Some(if i < k { i } else { pick_idx(d[(2 + i) % d.len()], k) }))).collect();
        let map = MapSpec { entries, labels: (0..k).map(|j| format!("P{j}")).collect(), as_file: false };
        let selected = vec![true; n];
        force_record_classes(&mut case.cs, &selected);
        make_selected_diploid(&mut case.cs, &selected);
        let sizes = map.pop_sizes();
        let totals = crate::props::c02::called_totals(&case.cs, &map);
        case.m = if d[3] % 3 == 0 {
            None
        } else {
            let anchor = if totals.is_empty() { None } else { Some(totals[pick_idx(d[4], totals.len())].clone()) };
            Some(
                (0..k)
                    .map(|j| match d[(5 + j) % d.len()] % 6 {
                        0 => 0,
                        1 => 1,
                        2 => 2 * sizes[j],
                        3 => sizes[j],
                        _ => anchor.as_ref().map(|t| t[j]).unwrap_or(2 * sizes[j]).min(2 * sizes[j]),
                    })
                    .collect(),
            )
        };
        case.map = map;
        case
    })
}

fn permutation(n: usize, draws: &[u16]) -> Vec<usize> {
    // Fisher-Yates driven by the draws
    let mut p: Vec<usize> = (0..n).collect();
    for i in (1..n).rev() {
        let j = pick_idx(draws[i % draws.len()].wrapping_add((i as u16).wrapping_mul(7919)), i + 1);
        p.swap(i, j);
    }
    p
}

fn total(contribs: &[Option<Spec>], shape: &[usize]) -> Spec {
    let mut t = Spec::zeros(shape.to_vec());
    for c in contribs.iter().flatten() {
        t.add(c);
    }
    t
}

fn same(a: &Spec, b: &Spec, exact: bool) -> bool {
    a.shape == b.shape && a.values.iter().zip(&b.values).all(|(x, y)| if exact { x == y } else { (x - y).abs() <= 1e-12 * (1.0 + x.abs().max(y.abs())) })
}

fn eval_lib(_ctx: &Ctx, case: &Case) -> Verdict {
    let cs = &case.cs;
    let m = case.m.as_deref();
    let exact = m.is_none();
    let n = cs.records.len();
    let want = create(cs, &case.map, m);
    let in_stream = stream_contributions(cs, &cs.records, &case.map, m)?;
    ensure!(in_stream.len() == n, "the site reader returned {} sites for {n} records", in_stream.len());
    let classes = classify(cs, &case.map, m);
    // (i) contribution inside the stream == contribution when read alone by a fresh reader
    for (i, got) in in_stream.iter().enumerate() {
        let alone = stream_contributions(cs, &cs.records[i..=i], &case.map, m)?;
        let alone = &alone[0];
        let prev = if i > 0 { classes[i - 1] } else { "start" };
        match (got, alone) {
            (None, None) => {}
            (Some(a), Some(b)) => ensure!(
                same(a, b, exact),
                "record {i} ({}) contributes {:?} after a {prev} record but {:?} when read alone (target {m:?}): state leaked from the previous record",
                classes[i],
                a.values,
                b.values
            ),
            (a, b) => fail!("record {i} ({}) is {} after a {prev} record but {} when read alone (target {m:?})", classes[i], if a.is_some() { "counted" } else { "skipped" }, if b.is_some() { "counted" } else { "skipped" }),
        }
        // and the contribution has total weight one
        if let Some(a) = got {
            let s: f64 = a.values.iter().sum();
            ensure!((s - 1.0).abs() <= 1e-9, "record {i} contributes total weight {s}");
        }
    }
    // total == reference model
    let shape = want.spectrum.shape.clone();
    let whole = total(&in_stream, &shape);
    ensure!(
        whole.values.iter().zip(&want.spectrum.values).all(|(a, b)| (a - b).abs() <= if exact { 0.0 } else { 1e-9 * (1.0 + n as f64) }),
        "stream total {:?} differs from the reference model {:?}",
        whole.values,
        want.spectrum.values
    );
    // (ii) whole == sum of parts for every split point
    for split in 0..=n {
        let a = stream_contributions(cs, &cs.records[..split], &case.map, m)?;
        let b = stream_contributions(cs, &cs.records[split..], &case.map, m)?;
        let mut t = total(&a, &shape);
        t.add(&total(&b, &shape));
        ensure!(same(&t, &whole, exact), "split at {split}: sum of the parts {:?} != whole {:?}", t.values, whole.values);
    }
    // (iii) a permutation gives the same total
    let perm = permutation(n, &case.perm_draws);
    let permuted: Vec<Record> = perm.iter().map(|&i| cs.records[i].clone()).collect();
    let p = stream_contributions(cs, &permuted, &case.map, m)?;
    let pt = total(&p, &shape);
    ensure!(same(&pt, &whole, exact), "permutation {perm:?} of the records changes the total: {:?} vs {:?}", pt.values, whole.values);
    for (k, &i) in perm.iter().enumerate() {
        match (&p[k], &in_stream[i]) {
            (None, None) => {}
            (Some(a), Some(b)) if same(a, b, exact) => {}
            _ => fail!("record {i} contributes differently at position {k} of the permuted stream (after a {} record)", if k > 0 { classes[perm[k - 1]] } else { "start" }),
        }
    }

    let mut pass = Pass::new();
    let distinct: std::collections::BTreeSet<&str> = classes.iter().copied().collect();
    let after_projected = classes.windows(2).any(|w| w[0].ends_with("(projected)") && (w[1] == "exactly-sufficient" || w[1] == "insufficient"));
    pass.nontrivial = n >= 3 && distinct.len() >= 2 && (after_projected || m.is_none());
    for w in classes.windows(2) {
        pass.add_label(format!("pair:{}>{}", w[0], w[1]));
    }
    pass.add_label(if m.is_some() { "with-projection" } else { "without-projection" });
    Ok(pass)
}

// ---------------------------------------------------------------------------------------------
// CLI level: concatenation and permutation of rendered VCFs

fn renumber(cs: &CallSet, records: Vec<Record>) -> CallSet {
    // concatenations / permutations: keep records as they are (the parser accepts unsorted positions)
    cs.with_records(records)
}

fn eval_cli(ctx: &Ctx, case: &Case) -> Verdict {
    let dir = ctx.worker_dir(crate::engine::worker_id());
    let cs = &case.cs;
    let n = cs.records.len();
    let exact = case.m.is_none();
    let opts = CreateOpts {
        map: Some(case.map.clone()),
        project: case.m.clone().map(|m| Projection { m, individuals: false }),
        precision: Some(12),
        ..Default::default()
    };
    let run_on = |records: Vec<Record>, tag: &str| -> Result<Spec, Failure> {
        let sub = renumber(cs, records);
        let (run, argv) = run_create(ctx, &dir, tag, &sub, &Container::Vcf, &opts, Transport::Path);
        let got = cli::expect_spectrum(&run, &format!("`sfs {}`", argv.join(" ")))?;
        Ok(Spec::new(got.shape, got.values))
    };
    let whole = run_on(cs.records.clone(), "c11w")?;
    let tol = if exact { 0.0 } else { whole.values.len() as f64 * 1e-12 * 3.0 + 1e-9 };
    let close = |a: &Spec, b: &Spec| a.shape == b.shape && a.values.iter().zip(&b.values).all(|(x, y)| (x - y).abs() <= tol);
    let split = pick_idx(case.perm_draws[0], n + 1);
    let a = run_on(cs.records[..split].to_vec(), "c11a")?;
    let b = run_on(cs.records[split..].to_vec(), "c11b")?;
    let mut sum = a.clone();
    sum.add(&b);
    ensure!(close(&sum, &whole), "create(A ++ B) = {:?} but create(A) + create(B) = {:?} (split at {split} of {n}, target {:?})", whole.values, sum.values, case.m);
    let perm = permutation(n, &case.perm_draws);
    let permuted = run_on(perm.iter().map(|&i| cs.records[i].clone()).collect(), "c11p")?;
    ensure!(close(&permuted, &whole), "permuting the records ({perm:?}) changes the spectrum: {:?} vs {:?}", permuted.values, whole.values);
    // reversed order as a second permutation
    let reversed = run_on(cs.records.iter().rev().cloned().collect(), "c11r")?;
    ensure!(close(&reversed, &whole), "reversing the records changes the spectrum: {:?} vs {:?}", reversed.values, whole.values);
    let classes = classify(cs, &case.map, case.m.as_deref());
    let distinct: std::collections::BTreeSet<&str> = classes.iter().copied().collect();
    Ok(Pass::new().nontrivial(n >= 3 && distinct.len() >= 2).label(if exact { "without-projection" } else { "with-projection" }))
}

// ---------------------------------------------------------------------------------------------
// long streams through the binary (block-wise accumulation in the runner would show here)

#[derive(Clone, Debug, Serialize, Deserialize)]
pub struct LongCase {
    pub records: usize,
    pub project: bool,
    pub seed: u64,
}

fn eval_long(ctx: &Ctx, case: &LongCase) -> Verdict {
    let dir = ctx.worker_dir(crate::engine::worker_id());
    // four samples in two populations; a repeating but irregular pattern of record classes
    let n_samples = 4;
    let template = crate::props::c10::fresh_record(n_samples);
    let records: Vec<Record> = (0..case.records as u64)
        .map(|i| {
            let r = crate::engine::splitmix64(case.seed ^ i);
            let gts = (0..n_samples)
                .map(|s| {
                    let v = (r >> (8 * s)) & 0xff;
                    match v % 32 {
                        0 => Gt::diploid(None, None, false),
                        1 => Gt::diploid(Some(0), None, true),
                        2 => Gt::diploid(Some(1), Some(2), false),
                        k => Gt::diploid(Some((k & 1) as u8), Some(((k >> 1) & 1) as u8), k & 4 != 0),
                    }
                })
                .collect();
            Record {
                contig: (i >= case.records as u64 / 2) as usize,
                pos: 1 + i % (case.records as u64 / 2 + 1),
                n_alt: 2,
                gts,
                ..template.clone()
            }
        })
        .collect();
    let cs = CallSet {
        contigs: vec!["ctgLongA7".into(), "ctgLongB8".into()],
        samples: (0..n_samples).map(|i| format!("s{i}")).collect(),
        records,
    };
    let map = MapSpec {
        entries: vec![(0, Some(0)), (1, Some(1)), (2, Some(0)), (3, Some(1))],
        labels: vec!["A".into(), "B".into()],
        as_file: false,
    };
    let m = if case.project { Some(vec![2usize, 2]) } else { None };
    let opts = CreateOpts {
        map: Some(map.clone()),
        project: m.clone().map(|m| Projection { m, individuals: false }),
        precision: Some(9),
        ..Default::default()
    };
    let run_on = |records: Vec<Record>, tag: &str| -> Result<Spec, Failure> {
        let sub = cs.with_records(records);
        let (run, argv) = run_create(ctx, &dir, tag, &sub, &Container::Vcf, &opts, Transport::Path);
        let got = cli::expect_spectrum(&run, &format!("`sfs {}` on {} records", argv.join(" "), sub.records.len()))?;
        Ok(Spec::new(got.shape, got.values))
    };
    let n = cs.records.len();
    let whole = run_on(cs.records.clone(), "c11L")?;
    let want = create(&cs, &map, m.as_deref());
    let tol = if case.project { 1e-6 * (1.0 + n as f64 * 1e-3) + whole.values.len() as f64 * 1e-9 * 3.0 } else { 0.0 };
    ensure!(
        whole.values.iter().zip(&want.spectrum.values).all(|(a, b)| (a - b).abs() <= tol.max(if case.project { 1e-5 } else { 0.0 })),
        "{n}-record stream: `create` gives {:?}, the reference model {:?}",
        whole.values,
        want.spectrum.values
    );
    let split = n / 3;
    let mut sum = run_on(cs.records[..split].to_vec(), "c11La")?;
    sum.add(&run_on(cs.records[split..].to_vec(), "c11Lb")?);
    let close = |a: &Spec, b: &Spec| a.values.iter().zip(&b.values).all(|(x, y)| (x - y).abs() <= if case.project { 1e-5 } else { 0.0 });
    ensure!(close(&sum, &whole), "{n}-record stream: create(A ++ B) = {:?} but create(A) + create(B) = {:?} (split at {split})", whole.values, sum.values);
    let reversed = run_on(cs.records.iter().rev().cloned().collect(), "c11Lr")?;
    ensure!(close(&reversed, &whole), "{n}-record stream: reversing the records changes the spectrum: {:?} vs {:?}", reversed.values, whole.values);
    Ok(Pass::new().nontrivial(true).label(format!("records={n}")).label(if case.project { "with-projection" } else { "without-projection" }))
}

pub fn check(ctx: &Ctx) -> Check {
    let parts: Vec<Box<dyn Part>> = vec![
        Box::new(RandomPart {
            name: "lib-histories",
            rule: "record sequences (0..25 records, 1..3 populations) interleaving complete / partially missing / multiallelic / insufficient / exactly-sufficient records, with and without a projection target, fed through an in-memory genotype::Reader into the real site::Reader: (i) each record's contribution inside the stream equals its contribution when read alone by a fresh reader, (ii) whole == sum of parts for every split point, (iii) a permutation gives the same total and the same per-record contributions, total == reference model; non-trivial = >=3 records, >=2 classes and (no projection, or an exactly-sufficient/insufficient record directly after a projected one); the predecessor/successor class pairs are listed as labels",
            cases: ctx.tier.pick(40_000, 2_000_000),
            strategy: Box::new(|| strategy(25).boxed()),
            eval: Box::new(eval_lib),
        }),
        Box::new(RandomPart {
            name: "lib-histories-many-populations",
            rule: "the same histories (0..14 records, 5..8 samples) over 5..8 populations, every listed sample its own label first and the rest dealt out, targets per population from {0, 1, n_j, 2n_j, the called total of an anchor record}, unprojected in one case out of three: anything the site reader or the projection keeps per population (keys packed into a machine word, fixed-size per-axis tables) must still be reset between records; the same three relations as lib-histories; non-trivial by the same rule and >= 5 populations",
            cases: ctx.tier.pick(4_000, 150_000),
            strategy: Box::new(|| many_populations_strategy().boxed()),
            eval: Box::new(|ctx: &Ctx, case: &Case| {
                let mut pass = eval_lib(ctx, case)?;
                let pops = case.map.pop_sizes().len();
                if pops < 5 {
                    pass.nontrivial = false;
                }
                pass.add_label(format!("populations={pops}"));
                Ok(pass)
            }),
        }),
        Box::new(RandomPart {
            name: "cli-concat-permute",
            rule: "the same relations on rendered VCFs through the binary: create(A++B) == create(A)+create(B) at a generated split point, a generated permutation and the reversal give the same spectrum (exact without projection, 1e-9 at --precision 12 with)",
            cases: ctx.tier.pick(600, 15_000),
            strategy: Box::new(|| strategy(14).boxed()),
            eval: Box::new(eval_cli),
        }),
        Box::new(RandomPart {
            name: "cli-concat-permute-large-cohort",
            rule: "the same relations on cohorts of 86..700 samples (2..6 records whose numbers of called chromosomes differ, rare and common variants, targets from tiny to half of the cohort): whatever a record leaves behind in tables that grow with the number of chromosomes (factorials, ln-gamma, cached rows) shows as a dependence on the order",
            cases: ctx.tier.pick(100, 2500),
            strategy: Box::new(|| {
                (crate::props::c02::large_strategy(), prop::collection::vec(any::<u16>(), 26))
                    .prop_map(|(c, perm_draws)| Case { cs: c.cs, map: c.map, m: Some(c.m), perm_draws })
                    .boxed()
            }),
            eval: Box::new(eval_cli),
        }),
        Box::new(crate::engine::EnumPart {
            name: "cli-long-streams",
            rule: "streams of 1 025, 2 500, 4 097, 9 000, 20 000 (thorough also 16 385 and 70 000) records over two contigs with a pseudo-random mix of complete / missing / half-missing / multiallelic genotypes, two populations, with and without projection: the whole equals the reference model, create(A++B) == create(A)+create(B), reversal gives the same spectrum (exact without projection); sizes straddle plausible block sizes of an accumulator",
            exhaustive: false,
            cases: Box::new(|ctx: &Ctx| {
                let mut sizes = vec![1025usize, 2500, 4097, 9000, 20_000];
                if ctx.tier == crate::engine::Tier::Thorough {
                    sizes.extend([16_385, 70_000]);
                }
                let mut v = Vec::new();
                for (i, n) in sizes.into_iter().enumerate() {
                    for project in [false, true] {
                        v.push(LongCase { records: n, project, seed: ctx.seed.wrapping_mul(31).wrapping_add(i as u64) });
                    }
                }
                v
            }),
            eval: Box::new(eval_long),
        }),
    ];
    Check {
        parts,
        level: "exploration",
        assumptions: vec!["the in-memory reader classifies genotypes per C08's statement (the VCF/BCF conversion itself is C08's subject)"],
        post: None,
    }
}
