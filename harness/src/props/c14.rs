//! C14 — statistics are invariant under the transformations that must not matter.

use proptest::prelude::*;
use serde::{Deserialize, Serialize};

use sfs_core::Scs;

use crate::{
    cli::{self, Input},
    engine::{guard, Ctx, Failure, Part, Pass, RandomPart, Verdict},
    gen::shapes::elements,
    model::spec::Spec,
    props::{c06::estimators, Check},
};

#[derive(Clone, Copy, Debug, PartialEq, Eq, Hash, PartialOrd, Ord)]
pub enum Stat {
    Sum,
    S,
    Pi,
    Theta,
    DTajima,
    PiXy,
    F2,
    F3,
    F4,
    Fst,
    King,
    R0,
    R1,
}

impl Stat {
    fn cli(self) -> &'static str {
        match self {
            Stat::Sum => "sum",
            Stat::S => "s",
            Stat::Pi => "pi",
            Stat::Theta => "theta",
            Stat::DTajima => "d-tajima",
            Stat::PiXy => "pi-xy",
            Stat::F2 => "f2",
            Stat::F3 => "f3",
            Stat::F4 => "f4",
            Stat::Fst => "fst",
            Stat::King => "king",
            Stat::R0 => "r0",
            Stat::R1 => "r1",
        }
    }
}

/// Library evaluation, normalising first for f2/f3/f4/Fst exactly as the CLI does.
fn lib_stat(spec: &Spec, stat: Stat) -> Result<f64, Failure> {
    let scs: Scs = spec.to_scs();
    let r = guard(|| match stat {
        Stat::Sum => Ok(scs.sum()),
        Stat::S => Ok(scs.segregating_sites()),
        Stat::Pi => scs.pi().map_err(|e| e.to_string()),
        Stat::Theta => scs.theta_watterson().map_err(|e| e.to_string()),
        Stat::DTajima => scs.d_tajima().map_err(|e| e.to_string()),
        Stat::PiXy => scs.pi_xy().map_err(|e| e.to_string()),
        Stat::F2 => scs.clone().into_normalized().f2().map_err(|e| e.to_string()),
        Stat::F3 => scs.clone().into_normalized().f3().map_err(|e| e.to_string()),
        Stat::F4 => scs.clone().into_normalized().f4().map_err(|e| e.to_string()),
        Stat::Fst => scs.clone().into_normalized().fst().map_err(|e| e.to_string()),
        Stat::King => scs.king().map_err(|e| e.to_string()),
        Stat::R0 => scs.r0().map_err(|e| e.to_string()),
        Stat::R1 => scs.r1().map_err(|e| e.to_string()),
    })
    .map_err(|p| Failure::new(format!("{stat:?} on shape {:?}: {p}", spec.shape)))?;
    r.map_err(|e| Failure::new(format!("{stat:?} on shape {:?} returned an error: {e}", spec.shape)))
}

fn stats_for(shape: &[usize]) -> Vec<Stat> {
    match shape.len() {
        1 => vec![Stat::Sum, Stat::S, Stat::Pi, Stat::Theta, Stat::DTajima],
        2 if shape == [3, 3] => vec![Stat::Sum, Stat::S, Stat::PiXy, Stat::F2, Stat::Fst, Stat::King, Stat::R0, Stat::R1],
        2 => vec![Stat::Sum, Stat::S, Stat::PiXy, Stat::F2, Stat::Fst],
        3 => vec![Stat::Sum, Stat::S, Stat::F3],
        4 => vec![Stat::Sum, Stat::S, Stat::F4],
        _ => vec![],
    }
}

/// Tolerance: relative 1e-11 plus, for Tajima's D, a term scaled by the cancelling thetas.
fn tol(spec: &Spec, stat: Stat, a: f64, b: f64) -> f64 {
    let base = 1e-11 * (1.0 + a.abs().max(b.abs()));
    match stat {
        Stat::DTajima if spec.dims() == 1 => base + estimators(&spec.values).d_tajima.map(|(_, s)| 1e-11 * s).unwrap_or(0.0),
        Stat::Fst | Stat::King | Stat::R0 | Stat::R1 => base * 10.0,
        _ => base,
    }
}

fn same(spec: &Spec, stat: Stat, a: f64, b: f64) -> Option<bool> {
    if !a.is_finite() || !b.is_finite() {
        // undefined on this data (zero denominator): not compared
        return if a.is_finite() == b.is_finite() { None } else { Some(false) };
    }
    Some((a - b).abs() <= tol(spec, stat, a, b))
}

#[derive(Clone, Debug, Serialize, Deserialize)]
pub struct Case {
    pub spec: Spec,
    pub scale_exp: i32,
    pub scale_arbitrary: f64,
    pub mono: (f64, f64),
}

fn shape_choice() -> impl Strategy<Value = Vec<usize>> {
    prop_oneof![
        12 => (3usize..=60).prop_map(|n| vec![n + 1]),
        4 => (61usize..=300).prop_map(|n| vec![n + 1]),
        8 => Just(vec![3usize, 3]),
        12 => (2usize..=7, 2usize..=7).prop_map(|(a, b)| if a == b { vec![a, b + 1] } else { vec![a, b] }),
        12 => Just((2usize..=6).collect::<Vec<_>>()).prop_shuffle().prop_map(|mut v| { v.truncate(3); v }),
        12 => Just((2usize..=6).collect::<Vec<_>>()).prop_shuffle().prop_map(|mut v| { v.truncate(4); v }),
        // more than 4096 / 8192 entries (block-wise sums and writers), while the marginals stay small
        1 => prop_oneof![Just(vec![65usize, 64]), Just(vec![70, 61]), Just(vec![18, 16, 15]), Just(vec![17, 15, 17]), Just(vec![9, 8, 7, 10]), Just(vec![10, 9, 11, 9]), Just(vec![4098]), Just(vec![8195])],
    ]
}

/// Monomorphic entries of any magnitude: genome-scale counts of invariant sites dwarf the
/// polymorphic part (a statistic that is `total - corners` loses it to cancellation).
fn mono_value() -> impl Strategy<Value = f64> {
    prop_oneof![3 => 0.0f64..500.0, 1 => Just(0.0), 1 => 1e5f64..1e7, 2 => 1e9f64..4e9, 1 => 1e11f64..1e13, 1 => Just(1e17), 1 => 1e15f64..1e18]
}

fn strategy() -> impl Strategy<Value = Case> {
    (
        shape_choice(),
        prop::collection::vec(prop_oneof![4 => 0.0f64..100.0, 2 => (0u32..50).prop_map(|v| v as f64), 1 => Just(0.0)], 360),
        -8i32..=8,
        0.001f64..1000.0,
        (mono_value(), mono_value()),
    )
        .prop_map(|(shape, mut values, scale_exp, scale_arbitrary, mono)| {
            let n = elements(&shape);
            values.truncate(n);
            while values.len() < n {
                let k = values.len();
                values.push(values[k % 360.min(k.max(1))]);
            }
            Case {
                spec: Spec::new(shape, values),
                scale_exp,
                scale_arbitrary,
                mono,
            }
        })
}

fn eval(_ctx: &Ctx, case: &Case) -> Verdict {
    let spec = &case.spec;
    let d = spec.dims();
    let stats = stats_for(&spec.shape);
    let base: Vec<f64> = stats.iter().map(|s| lib_stat(spec, *s)).collect::<Result<_, _>>()?;
    let mut pass = Pass::new();
    let mut compared = 0u64;
    let mut cmp = |what: &str, stat: Stat, a: f64, b: f64, spec_for_tol: &Spec| -> Result<(), Failure> {
        match same(spec_for_tol, stat, a, b) {
            None => Ok(()),
            Some(true) => {
                compared += 1;
                Ok(())
            }
            Some(false) => Err(Failure::new(format!("{stat:?} {what}: {a} vs {b} on {:?}", case.spec))),
        }
    };

    // f3 / f4 as linear combinations of f2 of the two-population marginals of the normalised spectrum
    if d == 3 || d == 4 {
        let norm = spec.normalize();
        let f2_of = |i: usize, j: usize| -> Result<f64, Failure> {
            let remove: Vec<usize> = (0..d).filter(|a| *a != i && *a != j).collect();
            let mut m = norm.marginalize(&remove);
            if i > j {
                m = m.permute_axes(&[1, 0]);
            }
            lib_stat(&m, Stat::F2)
        };
        if d == 3 {
            let f3 = lib_stat(spec, Stat::F3)?;
            let combo = 0.5 * (f2_of(0, 1)? + f2_of(0, 2)? - f2_of(1, 2)?);
            cmp("!= 1/2 (f2(A,B) + f2(A,C) - f2(B,C)) from the two-population marginals", Stat::F3, f3, combo, spec)?;
        } else {
            let f4 = lib_stat(spec, Stat::F4)?;
            let combo = 0.5 * (f2_of(0, 3)? + f2_of(1, 2)? - f2_of(0, 2)? - f2_of(1, 3)?);
            cmp("!= 1/2 (f2(A,D) + f2(B,C) - f2(A,C) - f2(B,D)) from the two-population marginals", Stat::F4, f4, combo, spec)?;
        }
        pass.add_label(if d == 3 { "f3-decomposition" } else { "f4-decomposition" });
    }

    // folding with fill zero
    let folded = spec.fold(0.0);
    for (stat, b) in stats.iter().zip(&base) {
        if matches!(stat, Stat::Sum) {
            continue;
        }
        let f = lib_stat(&folded, *stat)?;
        cmp("changes under folding with fill zero", *stat, *b, f, spec)?;
    }
    // and through sfs's own fold
    {
        let scs = spec.to_scs();
        let own = guard(|| Spec::from_scs(&scs.fold().into_spectrum(0.0))).map_err(Failure::new)?;
        for (stat, b) in stats.iter().zip(&base) {
            if matches!(stat, Stat::Sum) {
                continue;
            }
            let f = lib_stat(&own, *stat)?;
            cmp("changes under Spectrum::fold().into_spectrum(0.0)", *stat, *b, f, spec)?;
        }
    }

    // the two monomorphic entries
    let mut mono = spec.clone();
    let last = mono.values.len() - 1;
    mono.values[0] = case.mono.0;
    mono.values[last] = case.mono.1;
    for (stat, b) in stats.iter().zip(&base) {
        if matches!(stat, Stat::Sum | Stat::F2 | Stat::F3 | Stat::F4) {
            continue;
        }
        let m = lib_stat(&mono, *stat)?;
        cmp("depends on the two monomorphic entries", *stat, *b, m, spec)?;
    }

    // swapping the two populations
    if d == 2 {
        let t = spec.permute_axes(&[1, 0]);
        for (stat, b) in stats.iter().zip(&base) {
            if matches!(stat, Stat::F2 | Stat::Fst | Stat::PiXy | Stat::King | Stat::R0 | Stat::R1) {
                let v = lib_stat(&t, *stat)?;
                cmp("changes when the two populations are swapped", *stat, *b, v, spec)?;
            }
        }
    }

    // scaling by a positive constant (a power of two is exact, an arbitrary one is not)
    // ... and constants that bring the total to one, and to just beside one (a spectrum that "already
    // looks normalised" is still a spectrum times a constant)
    let total = spec.sum();
    let n_cells = spec.values.len() as f64;
    let mut constants = vec![2f64.powi(case.scale_exp), case.scale_arbitrary];
    if total.is_finite() && total > 0.0 && total < 1e12 {
        constants.extend([1.0 / total, (1.0 + 1e-7) / total, (1.0 - 3e-7 * n_cells) / total, (1.0 + 2e-5) / total]);
    }
    for c in constants {
        let scaled = Spec::new(spec.shape.clone(), spec.values.iter().map(|v| v * c).collect());
        for (stat, b) in stats.iter().zip(&base) {
            let v = lib_stat(&scaled, *stat)?;
            match stat {
                Stat::F2 | Stat::F3 | Stat::F4 | Stat::Fst | Stat::King | Stat::R0 | Stat::R1 => cmp(&format!("changes when the input is multiplied by {c}"), *stat, *b, v, spec)?,
                Stat::Sum | Stat::S | Stat::Pi | Stat::PiXy | Stat::Theta => cmp(&format!("does not scale by {c} with the input"), *stat, *b * c, v, &scaled)?,
                Stat::DTajima => {}
            }
        }
    }

    let mut lens = spec.shape.clone();
    lens.sort();
    lens.dedup();
    let interior = spec.values[1..last].iter().filter(|v| **v != 0.0).count();
    let mono_changed = |old: f64, new: f64| new >= 2.0 * old || new <= 0.5 * old;
    pass.nontrivial = (d == 1 || lens.len() >= 2 || spec.shape == [3, 3]) && interior >= 4 && mono_changed(spec.values[0], case.mono.0) && mono_changed(spec.values[last], case.mono.1);
    pass.count("relations-compared", compared);
    pass.add_label(format!("axes={d}"));
    if spec.values.len() > 4096 {
        pass.add_label("more-than-4096-entries");
    }
    if spec.shape == [3, 3] {
        pass.add_label("3x3");
    }
    Ok(pass)
}

// ---------------------------------------------------------------------------------------------
// CLI: the normalisation in front of f2/f3/f4/Fst lives in the CLI

#[derive(Clone, Debug, Serialize, Deserialize)]
pub struct CliCase {
    pub shape: Vec<usize>,
    pub counts: Vec<u32>,
    pub scale: u32,
}

fn cli_strategy() -> impl Strategy<Value = CliCase> {
    (shape_choice(), prop::collection::vec(prop_oneof![3 => 0u32..60, 1 => Just(0u32)], 360), 2u32..=9).prop_map(|(shape, mut counts, scale)| {
        let n = elements(&shape);
        counts.truncate(n);
        while counts.len() < n {
            let k = counts.len();
            counts.push(counts[k % 360]);
        }
        CliCase { shape, counts, scale }
    })
}

fn cli_stats(ctx: &Ctx, dir: &std::path::Path, stats: &[Stat], input: &str, fold_first: bool) -> Result<Vec<f64>, Failure> {
    cli_stats_p(ctx, dir, stats, input, fold_first, 17)
}

fn cli_stats_p(ctx: &Ctx, dir: &std::path::Path, stats: &[Stat], input: &str, fold_first: bool, fold_precision: usize) -> Result<Vec<f64>, Failure> {
    let list = stats.iter().map(|s| s.cli()).collect::<Vec<_>>().join(",");
    let run = if fold_first {
        let bin = ctx.sfs_bin.to_string_lossy().into_owned();
        let script = format!("set -o pipefail; \"{bin}\" fold --fill zero --precision {fold_precision} {input} | \"{bin}\" stat -s {list} --precision 12");
        cli::run_bin(ctx, std::path::Path::new("/bin/bash"), &["-c", &script], Input::Null, dir, &[])
    } else {
        cli::sfs(ctx, &["stat", "-s", &list, "--precision", "12", input], Input::Null, dir)
    };
    ensure!(run.ok(), "stat -s {list} on {input} (fold first: {fold_first}) failed: {}", run.describe());
    let text = run.stdout_str();
    let vals: Vec<f64> = text.trim_end().split(',').map(|t| t.parse::<f64>().unwrap_or(f64::NAN)).collect();
    ensure!(vals.len() == stats.len(), "unexpected stat output {text:?}");
    Ok(vals)
}

fn eval_cli(ctx: &Ctx, case: &CliCase) -> Verdict {
    let dir = ctx.worker_dir(crate::engine::worker_id());
    let spec = Spec::new(case.shape.clone(), case.counts.iter().map(|c| *c as f64).collect());
    let write = |name: &str, s: &Spec| std::fs::write(dir.join(name), crate::props::common::text_bytes_exact(s)).expect("write");
    write("base.sfs", &spec);
    let stats = stats_for(&case.shape);
    let base = cli_stats(ctx, &dir, &stats, "base.sfs", false)?;
    let near = |stat: Stat, a: f64, b: f64| -> Option<bool> {
        if !a.is_finite() || !b.is_finite() {
            return if a.is_finite() == b.is_finite() { None } else { Some(false) };
        }
        let extra = if stat == Stat::DTajima { estimators(&spec.values).d_tajima.map(|(_, s)| 1e-9 * s).unwrap_or(0.0) } else { 0.0 };
        Some((a - b).abs() <= 2e-12 + 1e-9 * (1.0 + a.abs()) + extra)
    };
    let mut compared = 0u64;
    // fold --fill zero | stat
    let folded = cli_stats(ctx, &dir, &stats, "base.sfs", true)?;
    for ((stat, a), b) in stats.iter().zip(&base).zip(&folded) {
        if *stat == Stat::Sum {
            // the mass is preserved by folding with fill zero as well
        }
        match near(*stat, *a, *b) {
            Some(false) => fail!("`sfs fold --fill zero | sfs stat -s {}` = {b}, `sfs stat` directly = {a} on shape {:?} counts {:?}", stat.cli(), case.shape, case.counts),
            Some(true) => compared += 1,
            None => {}
        }
    }
    // the same statistics requested in another order in one invocation, and one at a time
    {
        let mut order: Vec<usize> = (0..stats.len()).collect();
        order.reverse();
        let r = (case.scale as usize) % stats.len().max(1);
        order.rotate_left(r);
        let shuffled: Vec<Stat> = order.iter().map(|&i| stats[i]).collect();
        let got = cli_stats(ctx, &dir, &shuffled, "base.sfs", false)?;
        for (k, &i) in order.iter().enumerate() {
            let (a, b) = (base[i], got[k]);
            ensure!(
                a.to_bits() == b.to_bits() || (a.is_nan() && b.is_nan()),
                "`sfs stat -s {}` reports {} = {b}, but `-s {}` reports {a} for the same spectrum (shape {:?})",
                shuffled.iter().map(|s| s.cli()).collect::<Vec<_>>().join(","),
                stats[i].cli(),
                stats.iter().map(|s| s.cli()).collect::<Vec<_>>().join(","),
                case.shape
            );
        }
        for (i, st) in stats.iter().enumerate() {
            let alone = cli_stats(ctx, &dir, &[*st], "base.sfs", false)?[0];
            ensure!(alone.to_bits() == base[i].to_bits() || (alone.is_nan() && base[i].is_nan()), "`sfs stat -s {}` alone = {alone}, inside a list = {} (shape {:?})", st.cli(), base[i], case.shape);
        }
        compared += stats.len() as u64;
    }
    // scaling
    let scaled = Spec::new(spec.shape.clone(), spec.values.iter().map(|v| v * case.scale as f64).collect());
    write("scaled.sfs", &scaled);
    let sc = cli_stats(ctx, &dir, &stats, "scaled.sfs", false)?;
    for ((stat, a), b) in stats.iter().zip(&base).zip(&sc) {
        let expect = match stat {
            Stat::F2 | Stat::F3 | Stat::F4 | Stat::Fst | Stat::King | Stat::R0 | Stat::R1 => *a,
            Stat::Sum | Stat::S | Stat::Pi | Stat::PiXy | Stat::Theta => *a * case.scale as f64,
            Stat::DTajima => continue,
        };
        match near(*stat, expect, *b) {
            Some(false) => fail!("`sfs stat -s {}` on the input multiplied by {} = {b}, expected {expect} (unscaled value {a}) on shape {:?} counts {:?}", stat.cli(), case.scale, case.shape, case.counts),
            Some(true) => compared += 1,
            None => {}
        }
    }
    // a tiny positive constant (2^-70, exact), the spectrum folded through the text format at a
    // precision that keeps every digit: the scale-free statistics must not notice either step
    {
        let c = 2f64.powi(-70);
        let tiny = Spec::new(spec.shape.clone(), spec.values.iter().map(|v| v * c).collect());
        write("tiny.sfs", &tiny);
        let sel: Vec<Stat> = stats.iter().copied().filter(|s| matches!(s, Stat::F2 | Stat::F3 | Stat::F4 | Stat::Fst | Stat::King | Stat::R0 | Stat::R1)).collect();
        if !sel.is_empty() {
            let t = cli_stats_p(ctx, &dir, &sel, "tiny.sfs", true, 60)?;
            for (stat, b) in sel.iter().zip(&t) {
                let a = base[stats.iter().position(|s| s == stat).unwrap()];
                match near(*stat, a, *b) {
                    Some(false) => fail!("`sfs fold --fill zero --precision 60 | sfs stat -s {}` on the input multiplied by 2^-70 = {b}, on the input itself {a} (shape {:?} counts {:?})", stat.cli(), case.shape, case.counts),
                    Some(true) => compared += 1,
                    None => {}
                }
            }
        }
    }
    // a genome-scale monomorphic class makes the f-statistics tiny (of either sign): what the binary
    // prints at full precision is what the library computes, sign included
    {
        let sel: Vec<Stat> = stats.iter().copied().filter(|s| matches!(s, Stat::F2 | Stat::F3 | Stat::F4)).collect();
        let total = spec.sum();
        if !sel.is_empty() && total > 0.0 {
            for factor in [3.0e5, 4.0e7] {
                let mut heavy = spec.clone();
                heavy.values[0] += (total * factor).round();
                write("heavy.sfs", &heavy);
                let list = sel.iter().map(|s| s.cli()).collect::<Vec<_>>().join(",");
                let run = cli::sfs(ctx, &["stat", "-s", &list, "--precision", "20", "heavy.sfs"], Input::Null, &dir);
                ensure!(run.ok(), "stat -s {list} --precision 20 failed: {}", run.describe());
                let text = run.stdout_str();
                let printed: Vec<f64> = text.trim_end().split(',').map(|t| t.parse::<f64>().unwrap_or(f64::NAN)).collect();
                ensure!(printed.len() == sel.len(), "unexpected stat output {text:?}");
                for (stat, p) in sel.iter().zip(&printed) {
                    let want = lib_stat(&heavy, *stat)?;
                    if want.is_finite() {
                        ensure!(
                            (p - want).abs() <= 0.5e-20 + 1e-9 * want.abs(),
                            "`sfs stat -s {} --precision 20` prints {p:e} for a spectrum with a large monomorphic class, the library computes {want:e} (shape {:?})",
                            stat.cli(),
                            case.shape
                        );
                        compared += 1;
                    }
                }
            }
        }
    }
    // transposition
    if case.shape.len() == 2 {
        write("t.sfs", &spec.permute_axes(&[1, 0]));
        let sel: Vec<Stat> = stats.iter().copied().filter(|s| matches!(s, Stat::F2 | Stat::Fst | Stat::PiXy | Stat::King | Stat::R0 | Stat::R1)).collect();
        let t = cli_stats(ctx, &dir, &sel, "t.sfs", false)?;
        for (stat, b) in sel.iter().zip(&t) {
            let a = base[stats.iter().position(|s| s == stat).unwrap()];
            match near(*stat, a, *b) {
                Some(false) => fail!("`sfs stat -s {}` changes when the two populations are swapped: {a} vs {b} on shape {:?} counts {:?}", stat.cli(), case.shape, case.counts),
                Some(true) => compared += 1,
                None => {}
            }
        }
    }
    let mut pass = Pass::new().nontrivial(case.counts.iter().filter(|c| **c != 0).count() >= 6).label(format!("axes={}", case.shape.len())).label(if case.counts.len() > 4096 { "more-than-4096-entries" } else { "at-most-4096-entries" });
    pass.count("relations-compared", compared);
    Ok(pass)
}

pub fn check(ctx: &Ctx) -> Check {
    let parts: Vec<Box<dyn Part>> = vec![
        Box::new(RandomPart {
            name: "lib-relations",
            rule: "one-axis (n 3..300), two-axis (unequal lengths, and 3x3), 3- and 4-axis spectra with pairwise different lengths 2..6, and (one case in sixty) spectra of 4 098 .. 8 910 entries in 1..4 axes, non-negative random values; scale factors 2^k, arbitrary, and those that bring the total to 1 or to within 1e-7 .. 2e-5 of 1: f3/f4 == the documented linear combinations of f2 over the two-population marginals (harness marginalization) of the normalised spectrum; fold with fill 0 (harness model and sfs's own fold) leaves pi, theta, S, Tajima's D, pi_xy, f2, f3, f4, Fst, KING, R0, R1 unchanged; replacing the two monomorphic entries leaves everything except sum/f2/f3/f4 unchanged; transposition leaves f2, Fst, pi_xy, KING, R0, R1 unchanged; scaling by 2^k (exact) and by an arbitrary c > 0 leaves f2/f3/f4/Fst/KING/R0/R1 unchanged and scales sum/S/pi/pi_xy/theta by c; non-trivial = >=4 non-zero interior cells and both monomorphic entries changed by a factor >= 2",
            cases: ctx.tier.pick(40_000, 3_000_000),
            strategy: Box::new(|| strategy().boxed()),
            eval: Box::new(eval),
        }),
        Box::new(RandomPart {
            name: "cli-relations",
            rule: "integer spectra through `sfs fold --fill zero | sfs stat` vs `sfs stat` directly, the scaling relation (by an integer 2..9, and by 2^-70 combined with `fold --fill zero --precision 60` for the scale-free statistics) and the transposition relation through `sfs stat --precision 12`, f2/f3/f4 of the same spectrum under a genome-scale monomorphic class (values of 1e-7 .. 1e-10 of either sign) printed at --precision 20 against the library, and every statistic requested alone, in a list, and in a differently ordered list of one invocation must print the same value (the normalisation in front of f2/f3/f4/Fst lives in the CLI)",
            cases: ctx.tier.pick(800, 20_000),
            strategy: Box::new(|| cli_strategy().boxed()),
            eval: Box::new(eval_cli),
        }),
    ];
    Check {
        parts,
        level: "exploration",
        assumptions: vec!["relations are pointwise algebraic identities; tolerance 1e-11 relative (x10 for ratios), Tajima's D scaled by its cancelling terms", "a statistic that is not finite on the data (zero denominator) is not compared"],
        post: None,
    }
}
