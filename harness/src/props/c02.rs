//! C02 — create --project: hypergeometric down-sampling of every covered site.

use proptest::prelude::*;
use serde::{Deserialize, Serialize};

use crate::{
    cli,
    engine::{pick_idx, Ctx, Part, Pass, RandomPart, Verdict},
    gen::callset::{callset_strategy, finish_callset, force_record_classes, gt_strategy, make_selected_diploid, map_draw_strategy, resolve_map, CallSet, GenParams, MapSpec, Record},
    model::create::create,
    props::{
        common::{container_strategy, run_create, Container, CreateOpts, Projection, Transport},
        Check,
    },
};

#[derive(Clone, Debug, Serialize, Deserialize)]
pub struct Case {
    pub cs: CallSet,
    pub map: MapSpec,
    pub container: Container,
    /// target chromosomes per population
    pub m: Vec<usize>,
    pub individuals: bool,
    pub precision: Option<usize>,
}

#[derive(Clone, Debug)]
pub struct TargetDraw {
    pub mode: Vec<u8>,
    pub val: Vec<u16>,
    pub record: u16,
    pub global_mode: u8,
    pub individuals: bool,
}

pub fn target_draw_strategy() -> impl Strategy<Value = TargetDraw> {
    (prop::collection::vec(any::<u8>(), 4), prop::collection::vec(any::<u16>(), 4), any::<u16>(), any::<u8>(), prop::bool::weighted(0.3)).prop_map(|(mode, val, record, global_mode, individuals)| TargetDraw {
        mode,
        val,
        record,
        global_mode,
        individuals,
    })
}

/// Called chromosomes per population for every record.
pub fn called_totals(cs: &CallSet, map: &MapSpec) -> Vec<Vec<usize>> {
    let assignment = map.assignment(cs.samples.len());
    let d = map.pop_sizes().len();
    cs.records
        .iter()
        .map(|r| {
            let mut t = vec![0usize; d];
            for (i, a) in assignment.iter().enumerate() {
                if let Some(p) = a {
                    if r.gt_of(i).is_call() {
                        t[*p] += 2;
                    }
                }
            }
            t
        })
        .collect()
}

/// Admissible targets weighted on the boundaries.
pub fn resolve_targets(cs: &CallSet, map: &MapSpec, d: &TargetDraw) -> Vec<usize> {
    let sizes = map.pop_sizes();
    let totals = called_totals(cs, map);
    let npop = sizes.len();
    let mut m: Vec<usize> = Vec::with_capacity(npop);
    let anchor = if totals.is_empty() { None } else { Some(&totals[pick_idx(d.record, totals.len())]) };
    for j in 0..npop {
        let max = 2 * sizes[j];
        let min_t = totals.iter().map(|t| t[j]).min().unwrap_or(max);
        let v = if d.global_mode < 90 {
            // anchor on one record's called totals: that record is exactly sufficient
            anchor.map(|t| t[j]).unwrap_or(max)
        } else {
            match d.mode[j] % 8 {
                0 => 0,
                1 => max,
                2 => min_t,
                3 => min_t.saturating_sub(1),
                4 => (min_t + 1).min(max),
                5 => anchor.map(|t| t[j]).unwrap_or(max),
                _ => pick_idx(d.val[j], max + 1),
            }
        };
        m.push(v.min(max));
    }
    if (90..130).contains(&d.global_mode) {
        // anchor record, but one population one chromosome pair short: that record is insufficient
        if let Some(t) = anchor {
            for j in 0..npop {
                m[j] = t[j];
            }
            let j = pick_idx(d.val[0], npop);
            m[j] = (t[j] + 2).min(2 * sizes[j]);
        }
    }
    if d.individuals {
        for v in m.iter_mut() {
            *v -= *v % 2;
        }
    }
    m
}

fn strategy() -> impl Strategy<Value = Case> {
    let params = GenParams {
        missing_weight: 30,
        multi_weight: 10,
        odd_ploidy: true,
        ..GenParams::default()
    };
    (callset_strategy(params), map_draw_strategy(12), container_strategy(), target_draw_strategy(), prop::option::weighted(0.85, prop_oneof![10 => 0usize..=12, 2 => 13usize..=17, 2 => 18usize..=40, 1 => Just(100usize)])).prop_map(|(mut cs, draw, container, td, precision)| {
        let n = cs.samples.len();
        let map = resolve_map(&draw, n);
        let selected: Vec<bool> = map.assignment(n).iter().map(|a| a.is_some()).collect();
        force_record_classes(&mut cs, &selected);
        make_selected_diploid(&mut cs, &selected);
        let m = resolve_targets(&cs, &map, &td);
        Case {
            cs,
            map,
            container,
            m,
            individuals: td.individuals,
            precision,
        }
    })
}

/// Large cohort: 150..700 samples, 1..3 records, one or two populations.
pub fn large_strategy() -> impl Strategy<Value = Case> {
    (
        // 515..522 samples: just above 1030 chromosomes, where C(t, m) overflows f64 for mid-range
        // targets while the numerator binomials may not (the narrow band where a finite/inf slip shows)
        prop_oneof![3 => 150usize..=700, 3 => 515usize..=560, 1 => 86usize..=149],
        prop::collection::vec(
            // missingness is a property of the record: heavy, light, or none at all (complete cohort)
            (prop_oneof![2 => prop::collection::vec(gt_strategy(false, 20, 5), 700), 1 => prop::collection::vec(gt_strategy(false, 1, 0), 700), 2 => prop::collection::vec(gt_strategy(false, 0, 0), 700)], 1u64..=3000, any::<u8>(), any::<u16>()),
            2..=6,
        ),
        any::<bool>(),
        target_draw_strategy(),
        prop_oneof![Just(Container::Vcf), Just(Container::BcfRaw), crate::gen::bgzf::layout_strategy().prop_map(Container::Bcf)],
        any::<u16>(),
    )
        .prop_map(|(n, recs, two_pops, td, container, split)| {
            let tiny_targets = split % 3 == 0;
            let records: Vec<Record> = recs
                .into_iter()
                .map(|(mut gts, pos, force, rare)| {
                    // rare-variant classes (half of the records): a singleton .. quintupleton, or a site
                    // nearly fixed for ALT; the called genotypes keep their missingness pattern
                    let class = rare % 6;
                    if class < 3 {
                        let k = 1 + (rare as usize / 6) % 5;
                        let (common, other) = if class == 2 { (1u8, 0u8) } else { (0u8, 1u8) };
                        let mut placed = 0;
                        for (i, g) in gts.iter_mut().enumerate() {
                            if !g.is_call() {
                                continue;
                            }
                            let mut a = [common, common];
                            if placed < k && (crate::engine::splitmix64(rare as u64 ^ (i as u64) << 16) % 9 == 0) {
                                a[(i + placed) % 2] = other;
                                placed += 1;
                            }
                            *g = crate::gen::callset::Gt::diploid(Some(a[0]), Some(a[1]), g.phased.first().copied().unwrap_or(false));
                        }
                    }
                    (gts, pos, force)
                })
                .map(|(gts, pos, force)| Record {
                    contig: 0,
                    pos,
                    n_alt: 2,
                    symbolic: false,
                    id: false,
                    qual: None,
                    filter: 1,
                    info: 0,
                    fmt_dp: false,
                    fmt_gq: false,
                    ref_pad: 0,
                    has_gt: true,
                    force: force % 100, // no forced classes
                    gts,
                })
                .collect();
            let cs = finish_callset(vec!["Big".into()], n, (0..n).map(|_| "S".to_string()).collect(), records);
            let cut = 1 + pick_idx(split, n - 1);
            let entries = (0..n).map(|i| (i, if two_pops { Some(if i < cut { 0 } else { 1 }) } else { None })).collect();
            let map = MapSpec {
                entries,
                labels: if two_pops { vec!["popA".into(), "popB".into()] } else { vec![] },
                as_file: true,
            };
            let mut m = resolve_targets(&cs, &map, &td);
            // overflow-band class: a mid-range target close to half of the called chromosomes of the
            // anchor record (where C(t, m) is largest and overflows first)
            if (515..=560).contains(&n) && td.global_mode % 2 == 0 {
                let totals = called_totals(&cs, &map);
                if let Some(t) = totals.get(pick_idx(td.record, totals.len().max(1))) {
                    for j in 0..m.len() {
                        let half = t[j] / 2;
                        let off = (td.val[j] % 41) as usize;
                        m[j] = (half + off).saturating_sub(20).min(2 * map.pop_sizes()[j]);
                        if td.individuals {
                            m[j] -= m[j] % 2;
                        }
                    }
                }
            }
            // tiny targets (a third of the cases): 1..6 chromosomes out of hundreds
            if tiny_targets {
                for j in 0..m.len() {
                    m[j] = (1 + (td.val[j] as usize) % 6).min(2 * map.pop_sizes()[j]);
                    if td.individuals {
                        m[j] = (m[j] + m[j] % 2).min(2 * map.pop_sizes()[j]);
                    }
                }
            }
            Case {
                cs,
                map,
                container,
                m,
                individuals: td.individuals,
                precision: Some(10),
            }
        })
}

fn eval(ctx: &Ctx, case: &Case) -> Verdict {
    let dir = ctx.worker_dir(crate::engine::worker_id());
    let want = create(&case.cs, &case.map, Some(&case.m));
    ensure!(want.first_error.is_none(), "generator bug: ploidy error in a selected sample");
    let opts = CreateOpts {
        map: Some(case.map.clone()),
        project: Some(Projection {
            m: case.m.clone(),
            individuals: case.individuals,
        }),
        precision: case.precision,
        ..Default::default()
    };
    let (run, argv) = run_create(ctx, &dir, "c02", &case.cs, &case.container, &opts, Transport::Path);
    let short: Vec<String> = argv.iter().map(|a| cli::cut(a, 80)).collect();
    let what = format!("`sfs {}` ({}, population sizes {:?}, target chromosomes {:?})", short.join(" "), case.container.label(), case.map.pop_sizes(), case.m);
    let got = cli::expect_spectrum(&run, &what)?;
    let want_shape: Vec<usize> = case.m.iter().map(|m| m + 1).collect();
    ensure!(got.shape == want_shape, "{what}: output shape {:?}, expected (m_j+1) = {want_shape:?}", got.shape);
    let precision = case.precision.unwrap_or(6);
    let large = case.cs.samples.len() > 100;
    let contributions = want.counted as f64;
    for (i, (g, w)) in got.values.iter().zip(&want.spectrum.values).enumerate() {
        ensure!(g.is_finite(), "{what}: entry {i} printed as {:?}", got.tokens[i]);
        let decimals = got.tokens[i].split_once('.').map(|(_, f)| f.len()).unwrap_or(0);
        ensure!(decimals == precision, "{what}: entry {i} printed as {:?}, expected {precision} decimals", got.tokens[i]);
        let tol = 0.5 * 10f64.powi(-(precision as i32)) * (1.0 + 1e-9) + if large { 1e-8 * (1.0 + contributions) } else { 1e-9 * (1.0 + contributions) };
        if (g - w).abs() > tol {
            let idx = crate::gen::shapes::odometer(&got.shape)[i].clone();
            fail!(
                "{what}: entry {idx:?} printed {}, the sum over records of prod_j Hypergeom(k_j; t_j, a_j, m_j) is {w} ({} records contribute: {} projected down, {} exactly sufficient; {} insufficient)",
                got.tokens[i],
                want.counted,
                want.projected_down,
                want.exactly_sufficient,
                want.insufficient
            );
        }
    }
    // -p i  ==  --project-shape 2i+1, byte for byte
    if case.m.iter().all(|m| m % 2 == 0) {
        let other = CreateOpts {
            project: Some(Projection {
                m: case.m.clone(),
                individuals: !case.individuals,
            }),
            ..opts.clone()
        };
        let (run2, argv2) = run_create(ctx, &dir, "c02", &case.cs, &case.container, &other, Transport::Path);
        ensure!(
            run2.code == run.code && run2.stdout == run.stdout,
            "`{}` and `{}` differ: {} vs {}",
            argv.iter().map(|a| cli::cut(a, 60)).collect::<Vec<_>>().join(" "),
            argv2.iter().map(|a| cli::cut(a, 60)).collect::<Vec<_>>().join(" "),
            run.describe(),
            run2.describe()
        );
    }
    let nontrivial = want.projected_down >= 1 && (want.exactly_sufficient >= 1 || want.insufficient >= 1);
    let mut pass = Pass::new().nontrivial(nontrivial);
    pass.add_label(format!("populations={}", case.m.len()));
    pass.add_label(case.container.label());
    if want.projected_down > 0 {
        pass.add_label("has-projected-down");
    }
    if want.exactly_sufficient > 0 {
        pass.add_label("has-exactly-sufficient");
    }
    if want.insufficient > 0 {
        pass.add_label("has-insufficient");
    }
    if case.m.iter().any(|m| *m == 0) {
        pass.add_label("target-zero-chromosomes");
    }
    if case.m.iter().zip(case.map.pop_sizes()).all(|(m, n)| *m == 2 * n) {
        pass.add_label("target-full-size");
    }
    if large {
        if case.m.iter().all(|m| *m <= 6) {
            pass.add_label("tiny-targets(<=6-chromosomes)");
        }
        let rare = case.cs.records.iter().filter(|r| {
            let alt: u64 = r.gts.iter().filter(|g| g.is_call()).map(|g| g.alleles.iter().flatten().sum::<u64>()).sum();
            let called = 2 * r.gts.iter().filter(|g| g.is_call()).count() as u64;
            called > 100 && (alt <= 5 || called - alt <= 5)
        }).count();
        if rare > 0 {
            pass.add_label("has-rare-variant-record(<=5-minor-alleles)");
        }
        let max_t = case.map.pop_sizes().iter().map(|n| 2 * n).max().unwrap_or(0);
        pass.add_label(if max_t >= 1030 { "cohort>=1030-chromosomes" } else if max_t > 170 { "cohort-171..1029-chromosomes" } else { "cohort<=170" });
    }
    Ok(pass)
}

/// Long streams over a mid-sized cohort: hundreds of records whose (called chromosomes, ALT count)
/// pairs keep changing and recurring, so that anything remembered from earlier sites (tables,
/// caches, scratch rows) is exercised far beyond a handful of records.
pub fn long_strategy() -> impl Strategy<Value = Case> {
    (
        16usize..=34,
        prop::collection::vec((any::<u8>(), any::<u16>(), any::<u8>()), 300..=1400),
        any::<bool>(),
        (1usize..=9, 1usize..=9),
        any::<bool>(),
        prop_oneof![Just(Container::Vcf), Just(Container::BcfRaw)],
    )
        .prop_map(|(n, recs, two_pops, (m0, m1), individuals, container)| {
            let template = crate::props::c10::fresh_record(n);
            let mut pos = 0u64;
            let records: Vec<Record> = recs
                .iter()
                .map(|(missing, alt, rot)| {
                    pos += 1 + (*rot as u64 % 7);
                    let missing = if missing % 4 == 0 { 0 } else { (*missing as usize / 4) % (n + 1) };
                    let called = n - missing;
                    let a = if called == 0 { 0 } else { *alt as usize % (2 * called + 1) };
                    let mut gts = Vec::with_capacity(n);
                    for i in 0..n {
                        let gt = if i < missing {
                            crate::gen::callset::Gt::diploid(None, if i % 2 == 0 { None } else { Some(0) }, false)
                        } else {
                            let c = i - missing;
                            let k = if 2 * (c + 1) <= a { 2 } else if 2 * c < a { 1 } else { 0 };
                            match k {
                                2 => crate::gen::callset::Gt::diploid(Some(1), Some(1), c % 2 == 0),
                                1 => crate::gen::callset::Gt::diploid(Some((c % 2) as u8), Some(1 - (c % 2) as u8), false),
                                _ => crate::gen::callset::Gt::diploid(Some(0), Some(0), c % 3 == 0),
                            }
                        };
                        gts.push(gt);
                    }
                    gts.rotate_left(*rot as usize % n);
                    Record { pos, gts, ..template.clone() }
                })
                .collect();
            let cs = CallSet {
                contigs: vec!["ctgLong9".into()],
                samples: (0..n).map(|i| format!("L{i}")).collect(),
                records,
            };
            let entries = (0..n).map(|i| (i, if two_pops { Some(i % 2) } else { None })).collect();
            let map = MapSpec {
                entries,
                labels: if two_pops { vec!["even".into(), "odd".into()] } else { vec![] },
                as_file: false,
            };
            let mut m: Vec<usize> = if two_pops { vec![m0, m1] } else { vec![m0] };
            if individuals {
                for x in m.iter_mut() {
                    *x += *x % 2;
                }
            }
            Case {
                cs,
                map,
                container,
                m,
                individuals,
                precision: Some(8),
            }
        })
}

#[derive(Clone, Debug, Serialize, Deserialize)]
pub struct BadCase {
    pub cs: CallSet,
    pub map: MapSpec,
    pub kind: u8,
    pub individuals: bool,
}

fn bad_strategy() -> impl Strategy<Value = BadCase> {
    let params = GenParams {
        max_records: 6,
        odd_ploidy: false,
        ..GenParams::default()
    };
    (callset_strategy(params), map_draw_strategy(12), 0u8..6, any::<bool>()).prop_map(|(cs, draw, kind, individuals)| {
        let map = resolve_map(&draw, cs.samples.len());
        BadCase { cs, map, kind, individuals }
    })
}

fn eval_bad(ctx: &Ctx, case: &BadCase) -> Verdict {
    let dir = ctx.worker_dir(crate::engine::worker_id());
    let sizes = case.map.pop_sizes();
    let full: Vec<usize> = sizes.iter().map(|n| 2 * n + 1).collect();
    // inadmissible --project-shape values
    let (shape, what): (Vec<usize>, &str) = match case.kind {
        0 => {
            let mut s = full.clone();
            s.push(1);
            (s, "one axis too many")
        }
        1 if full.len() >= 2 => (full[..full.len() - 1].to_vec(), "one axis too few"),
        2 => {
            let mut s = full.clone();
            s[0] += 1;
            (s, "larger than the population on axis 0")
        }
        3 => {
            let mut s = full.clone();
            let l = s.len() - 1;
            s[l] += 2;
            (s, "larger than the population on the last axis")
        }
        4 => {
            let mut s = full.clone();
            s[0] = 0;
            (s, "shape 0")
        }
        _ => {
            let mut s = full.clone();
            let l = s.len() - 1;
            s[l] = 0;
            (s, "shape 0 on the last axis")
        }
    };
    let mut argv: Vec<String> = vec!["create".into(), "-s".into(), case.map.inline_arg(&case.cs)];
    if case.individuals && shape.iter().all(|s| s % 2 == 1) {
        argv.push("-p".into());
        argv.push(crate::props::common::join(&shape.iter().map(|s| (s - 1) / 2).collect::<Vec<_>>()));
    } else {
        argv.push("--project-shape".into());
        argv.push(crate::props::common::join(&shape));
    }
    argv.push("bad.vcf".into());
    std::fs::write(dir.join("bad.vcf"), case.cs.to_vcf()).expect("write");
    let run = cli::sfs(ctx, &argv, cli::Input::Null, &dir);
    ensure!(
        run.clean_failure() && run.stdout.is_empty(),
        "`sfs {}` with an inadmissible target ({what}; population shape {full:?}) must fail with a diagnostic and no output: {}",
        argv.join(" "),
        run.describe()
    );
    Ok(Pass::new().nontrivial(true).label(what))
}

pub fn check(ctx: &Ctx) -> Check {
    let parts: Vec<Box<dyn Part>> = vec![
        Box::new(RandomPart {
            name: "project-small",
            rule: "call sets with raised missingness x maps x admissible targets (every m_j in 0..2n_j, weighted on the boundaries: anchored on one record's called totals so that it is exactly sufficient, the same with one population one pair short, 0, 2n_j, min_t, min_t+-1, random) x --project-shape | -p x --precision 0..12 (a third of the cases 13..40, or 100) x containers: shape (m_j+1), every printed cell within 0.5*10^-p + 1e-9(1+R) of the reference model with an independent hypergeometric oracle, printed with exactly p decimals, finite; -p i byte-identical to --project-shape 2i+1; non-trivial = >=1 record projected strictly down and >=1 record exactly sufficient or insufficient",
            cases: ctx.tier.pick(5000, 200_000),
            strategy: Box::new(|| strategy().boxed()),
            eval: Box::new(eval),
        }),
        Box::new(RandomPart {
            name: "project-large-cohort",
            rule: "cohorts of 86..700 samples (172..1400 chromosomes: the ln-gamma path beyond the 170! table and binomials beyond f64 range, with extra weight on 515..522 samples where only the denominator binomial overflows), 2..6 records with ~20% missing genotypes (half of them rare variants: 1..5 minor alleles, or nearly fixed for ALT), one or two populations, targets as above or (a third of the cases) tiny targets of 1..6 chromosomes, precision 10; tolerance 0.5e-10 + 1e-8(1+R)",
            cases: ctx.tier.pick(400, 6000),
            strategy: Box::new(|| large_strategy().boxed()),
            eval: Box::new(eval),
        }),
        Box::new(RandomPart {
            name: "project-long-streams",
            rule: "16..34 samples in one or two populations, 300..1400 records each with its own number of missing genotypes (0..n) and ALT count (0..2*called), targets of 1..10 chromosomes: hundreds of distinct (called, ALT) pairs per axis that keep recurring; every printed cell against the reference model (precision 8, tolerance 0.5e-8 + 1e-9(1+R))",
            cases: ctx.tier.pick(200, 3000),
            strategy: Box::new(|| long_strategy().boxed()),
            eval: Box::new(eval),
        }),
        Box::new(RandomPart {
            name: "inadmissible-targets",
            rule: "wrong number of axes, m_j > 2n_j, shape 0 (via --project-shape and -p): non-zero exit, diagnostic, empty stdout",
            cases: ctx.tier.pick(400, 10_000),
            strategy: Box::new(|| bad_strategy().boxed()),
            eval: Box::new(eval_bad),
        }),
    ];
    Check {
        parts,
        level: "exploration",
        assumptions: vec!["reference model of create + independent hypergeometric oracle", "printed-value tolerance 0.5*10^-p + 1e-9(1+R), 1e-8 for cohorts above 100 samples"],
        post: None,
    }
}
