//! C07 — spectrum files round-trip through text and npy; the tool reads what it writes.

use proptest::prelude::*;
use serde::{Deserialize, Serialize};

use sfs_core::{
    spectrum::io::{read, write, Format},
    Input as SfsInput, Scs,
};

use crate::{
    cli::{self, Input},
    engine::{guard, Ctx, Failure, Part, Pass, RandomPart, Verdict},
    gen::{
        shapes::{elements, shape_strategy},
        values::zoo_bits,
    },
    model::spec::Spec,
    props::{c05, Check},
};

#[derive(Clone, Debug, Serialize, Deserialize)]
pub struct LibCase {
    pub shape: Vec<usize>,
    pub bits: Vec<u64>,
    pub precision: usize,
    pub npy: bool,
}

/// Sizes around powers of two and other plausible buffer sizes (block-wise writers and readers).
const BLOCK_EDGES: [usize; 14] = [255, 256, 257, 511, 513, 1023, 1024, 1025, 2047, 2049, 4095, 4096, 4097, 8193];

fn big_shape() -> impl Strategy<Value = Vec<usize>> {
    prop_oneof![
        2 => any::<u16>().prop_map(|d| vec![BLOCK_EDGES[crate::engine::pick_idx(d, BLOCK_EDGES.len())]]),
        1 => (600usize..=12_000).prop_map(|n| vec![n]),
        1 => (20usize..=110, 20usize..=110).prop_map(|(a, b)| vec![a, b]),
        1 => (9usize..=22, 9usize..=22, 9usize..=22).prop_map(|(a, b, c)| vec![a, b, c]),
    ]
}

fn lib_strategy() -> impl Strategy<Value = LibCase> {
    (
        prop_oneof![6 => shape_strategy(1, 6, 1, 6, 600).boxed(), 1 => big_shape().boxed()],
        prop::collection::vec(zoo_bits(), 600),
        prop_oneof![12 => 0usize..=17, 3 => 18usize..=60, 1 => prop_oneof![Just(100usize), Just(330), Just(400)]],
        any::<bool>(),
    )
        .prop_map(|(shape, pool, precision, npy)| {
            let n = elements(&shape);
            let bits = (0..n).map(|i| pool[(i * 7 + i / 600) % pool.len()]).collect();
            LibCase { shape, bits, precision, npy }
        })
}

fn ulp(v: f64) -> f64 {
    if v == 0.0 || !v.is_finite() {
        return f64::MIN_POSITIVE;
    }
    let b = v.abs().to_bits();
    f64::from_bits(b + 1) - v.abs()
}

/// Does rounding v to p decimals change it?
fn rounding_not_identity(v: f64, p: usize) -> bool {
    v.is_finite() && format!("{v:.p$}").parse::<f64>().map(|r| r != v).unwrap_or(false)
}

fn eval_lib(ctx: &Ctx, case: &LibCase) -> Verdict {
    let values: Vec<f64> = case.bits.iter().map(|b| f64::from_bits(*b)).collect();
    let scs = Scs::new(values.clone(), case.shape.clone()).map_err(|e| Failure::new(e.to_string()))?;
    let format = if case.npy { Format::Npy } else { Format::Text };
    let mut buf = Vec::new();
    let p = case.precision;
    match guard(|| write::Builder::default().set_format(format).set_precision(p).write(&mut buf, &scs)) {
        Ok(Ok(())) => {}
        Ok(Err(e)) => fail!("writing shape {:?} as {format:?} failed: {e}", case.shape),
        Err(pn) => fail!("writing shape {:?} as {format:?}: {pn}", case.shape),
    }
    let dir = ctx.worker_dir(crate::engine::worker_id());
    let path = dir.join(if case.npy { "rt.npy" } else { "rt.sfs" });
    std::fs::write(&path, &buf).expect("write");
    let pb = path.clone();
    let back = guard(move || read::Builder::default().set_input(SfsInput::new_unchecked(Some(pb))).read()).map_err(|pn| Failure::new(format!("reading back: {pn}")))?;
    let has_special = values.iter().any(|v| !v.is_finite());
    let back = match back {
        Ok(b) => b,
        Err(e) => fail!(
            "sfs cannot read (auto-detected format) what it wrote: {format:?}, shape {:?}, precision {p}: {e}; first bytes {:?}",
            case.shape,
            String::from_utf8_lossy(&buf[..buf.len().min(200)])
        ),
    };
    ensure!(back.shape().as_ref() == case.shape.as_slice(), "round trip changed the shape {:?} -> {:?}", case.shape, back.shape());
    let got = back.inner().as_slice();
    if case.npy {
        for (i, (g, w)) in got.iter().zip(&values).enumerate() {
            ensure!(g.to_bits() == w.to_bits(), "npy round trip changed value {i}: {w:?} ({:#x}) -> {g:?} ({:#x})", w.to_bits(), g.to_bits());
        }
    } else {
        let half = 0.5 * 10f64.powi(-(p as i32));
        for (i, (g, w)) in got.iter().zip(&values).enumerate() {
            if w.is_finite() {
                ensure!((g - w).abs() <= half * (1.0 + 1e-12) + ulp(*w), "text round trip at precision {p}: value {i} {w:?} read back as {g:?} (more than half a unit of decimal {p} away)");
            }
        }
    }
    let interesting_rounding = !case.npy && values.iter().any(|v| rounding_not_identity(*v, p));
    let nontrivial = (case.shape.len() >= 2 || has_special) && (case.npy || interesting_rounding);
    Ok(Pass::new()
        .nontrivial(nontrivial)
        .label(if case.npy { "npy" } else { "text" })
        .label(format!("axes={}", case.shape.len()))
        .label(if has_special { "has-nan-or-inf" } else { "all-finite" })
        .label(if p > 17 { "precision>17" } else { "precision<=17" }))
}

// ---------------------------------------------------------------------------------------------
// CLI pipelines

#[derive(Clone, Copy, Debug, Serialize, Deserialize, PartialEq)]
pub enum Producer {
    ViewText,
    ViewNpy,
    Fold,
}

#[derive(Clone, Copy, Debug, Serialize, Deserialize, PartialEq)]
pub enum Consumer {
    View,
    Fold,
    StatSum,
}

#[derive(Clone, Copy, Debug, Serialize, Deserialize, PartialEq)]
pub enum Link {
    /// producer writes a file with -o, consumer reads it by path
    File,
    /// producer's stdout captured by the harness and fed through an OS pipe to the consumer
    HarnessPipe,
    /// `sfs ... | sfs ...` in a shell: a real pipe between the two processes
    ShellPipe,
    /// a pipe handed to the consumer *by path*: `sfs ... | sfs <consumer> /dev/stdin`
    DevStdin,
    /// a named pipe (mkfifo) handed to the consumer by path, the producer writing into it
    Fifo,
}

#[derive(Clone, Debug, Serialize, Deserialize)]
pub struct PipeCase {
    pub spec: Spec,
    pub producer: Producer,
    pub consumer: Consumer,
    pub link: Link,
    pub precision: usize,
    /// for Link::File: the output path already holds this many bytes of an earlier, longer file
    #[serde(default)]
    pub preexisting: Option<usize>,
    /// name of the intermediate file / fifo: 0 = extension matching the format, 1 = `.out`,
    /// 2 = the *other* format's extension, 3 = none, 4 = `.txt`
    #[serde(default)]
    pub naming: u8,
}

fn value_spec(max_elems: usize) -> impl Strategy<Value = Spec> {
    (
        prop_oneof![8 => shape_strategy(1, 4, 1, 6, max_elems).boxed(), 1 => big_shape().boxed()],
        prop::collection::vec(prop_oneof![3 => (0u32..5000).prop_map(|v| v as f64), 2 => 0.0f64..100.0, 1 => Just(0.0)], max_elems),
    )
        .prop_map(|(shape, v)| {
            let n = elements(&shape);
            let values = (0..n).map(|i| v[(i * 5 + i / 400) % v.len()]).collect();
            Spec::new(shape, values)
        })
}

fn pipe_strategy() -> impl Strategy<Value = PipeCase> {
    (
        value_spec(400),
        prop_oneof![Just(Producer::ViewText), Just(Producer::ViewNpy), Just(Producer::Fold)],
        prop_oneof![Just(Consumer::View), Just(Consumer::Fold), Just(Consumer::StatSum)],
        prop_oneof![3 => Just(Link::File), 2 => Just(Link::HarnessPipe), 2 => Just(Link::ShellPipe), 1 => Just(Link::DevStdin), 1 => Just(Link::Fifo)],
        0usize..=10,
        prop::option::weighted(0.5, prop_oneof![Just(1usize), 1usize..=200, 4000usize..=40_000]),
        prop_oneof![3 => Just(0u8), 1 => Just(1u8), 2 => Just(2u8), 1 => Just(3u8), 1 => Just(4u8)],
    )
        .prop_map(|(spec, producer, consumer, link, precision, preexisting, naming)| PipeCase {
            spec,
            producer,
            consumer,
            link,
            precision,
            preexisting,
            naming,
        })
}

fn eval_pipe(ctx: &Ctx, case: &PipeCase) -> Verdict {
    let dir = ctx.worker_dir(crate::engine::worker_id());
    std::fs::write(dir.join("in.sfs"), crate::props::common::text_bytes_exact(&case.spec)).expect("write");
    let p = case.precision.to_string();
    let (mut prod_args, ext): (Vec<String>, &str) = match case.producer {
        Producer::ViewText => (vec!["view".into(), "--precision".into(), p.clone()], "sfs"),
        Producer::ViewNpy => (vec!["view".into(), "-O".into(), "npy".into()], "npy"),
        Producer::Fold => (vec!["fold".into(), "--precision".into(), p.clone(), "--fill".into(), "zero".into()], "sfs"),
    };
    // what the producer's output denotes (as numbers)
    let produced: Spec = match case.producer {
        Producer::ViewText => Spec::new(case.spec.shape.clone(), case.spec.values.iter().map(|v| format!("{v:.prec$}", prec = case.precision).parse().unwrap()).collect()),
        Producer::ViewNpy => case.spec.clone(),
        Producer::Fold => {
            let f = case.spec.fold(0.0);
            Spec::new(f.shape.clone(), f.values.iter().map(|v| format!("{v:.prec$}", prec = case.precision).parse().unwrap()).collect())
        }
    };
    let cons_args: Vec<String> = match case.consumer {
        Consumer::View => vec!["view".into(), "--precision".into(), "12".into()],
        Consumer::Fold => vec!["fold".into(), "--precision".into(), "12".into(), "--fill".into(), "minus-one".into()],
        Consumer::StatSum => vec!["stat".into(), "-s".into(), "sum".into(), "--precision".into(), "9".into()],
    };
    let suffix = match case.naming {
        0 => format!(".{ext}"),
        1 => ".out".to_string(),
        2 => if ext == "npy" { ".sfs".to_string() } else { ".npy".to_string() },
        3 => String::new(),
        _ => ".txt".to_string(),
    };
    let mid = format!("mid{suffix}");
    let fifo = format!("link{suffix}");
    let _ = std::fs::remove_file(dir.join(&mid));
    if let (Link::File, Some(n)) = (case.link, case.preexisting) {
        // the output path already exists and holds an earlier (typically longer) spectrum file
        let earlier = if ext == "npy" {
            crate::props::common::npy_bytes(&Spec::new(vec![n / 8 + 1], vec![7.0; n / 8 + 1]))
        } else {
            crate::props::common::text_bytes_precision(&Spec::new(vec![n / 4 + 1], vec![3.25; n / 4 + 1]), 2)
        };
        std::fs::write(dir.join(&mid), earlier).expect("write");
    }
    let final_run = match case.link {
        Link::File => {
            prod_args.extend(["-o".to_string(), mid.clone(), "in.sfs".to_string()]);
            let r = cli::sfs(ctx, &prod_args, Input::Null, &dir);
            ensure!(r.ok() && r.stdout.is_empty(), "producer `sfs {}` failed: {}", prod_args.join(" "), r.describe());
            let mut a = cons_args.clone();
            a.push(mid.clone());
            cli::sfs(ctx, &a, Input::Null, &dir)
        }
        Link::HarnessPipe => {
            prod_args.push("in.sfs".into());
            let r = cli::sfs(ctx, &prod_args, Input::Null, &dir);
            ensure!(r.ok(), "producer `sfs {}` failed: {}", prod_args.join(" "), r.describe());
            cli::sfs(ctx, &cons_args, Input::Pipe(&r.stdout), &dir)
        }
        Link::ShellPipe => {
            prod_args.push("in.sfs".into());
            let bin = ctx.sfs_bin.to_string_lossy().into_owned();
            let script = format!("set -o pipefail; \"{bin}\" {} | \"{bin}\" {}", prod_args.join(" "), cons_args.join(" "));
            cli::run_bin(ctx, std::path::Path::new("/bin/bash"), &["-c", &script], Input::Null, &dir, &[])
        }
        Link::DevStdin => {
            prod_args.push("in.sfs".into());
            let bin = ctx.sfs_bin.to_string_lossy().into_owned();
            let script = format!("set -o pipefail; \"{bin}\" {} | \"{bin}\" {} /dev/stdin", prod_args.join(" "), cons_args.join(" "));
            cli::run_bin(ctx, std::path::Path::new("/bin/bash"), &["-c", &script], Input::Null, &dir, &[])
        }
        Link::Fifo => {
            prod_args.push("in.sfs".into());
            let bin = ctx.sfs_bin.to_string_lossy().into_owned();
            let script = format!(
                "set -o pipefail; rm -f {fifo}; mkfifo {fifo}; \"{bin}\" {} > {fifo} & \"{bin}\" {} {fifo}; rc=$?; wait; rm -f {fifo}; exit $rc",
                prod_args.join(" "),
                cons_args.join(" ")
            );
            cli::run_bin(ctx, std::path::Path::new("/bin/bash"), &["-c", &script], Input::Null, &dir, &[])
        }
    };
    let what = format!("{:?} -> {:?} via {:?} (precision {}, intermediate named *{suffix:?})", case.producer, case.consumer, case.link, case.precision);
    ensure!(final_run.ok(), "{what}: the consumer did not accept the producer's output: {}", final_run.describe());
    let tol = |w: f64| 1e-9 * (1.0 + w.abs());
    match case.consumer {
        Consumer::View => {
            let got = cli::expect_spectrum(&final_run, &what)?;
            ensure!(got.shape == produced.shape, "{what}: shape {:?}, producer wrote {:?}", got.shape, produced.shape);
            for (i, (g, w)) in got.values.iter().zip(&produced.values).enumerate() {
                ensure!((g - w).abs() <= tol(*w), "{what}: value {i} = {g}, producer wrote {w}");
            }
        }
        Consumer::Fold => {
            let got = cli::expect_spectrum(&final_run, &what)?;
            let want = produced.fold(-1.0);
            ensure!(got.shape == want.shape, "{what}: shape");
            for (i, (g, w)) in got.values.iter().zip(&want.values).enumerate() {
                ensure!((g - w).abs() <= tol(*w), "{what}: folded value {i} = {g}, expected {w}");
            }
        }
        Consumer::StatSum => {
            let text = final_run.stdout_str();
            let got: f64 = text.trim().parse().map_err(|_| Failure::new(format!("{what}: stat output {text:?} is not a number")))?;
            let want = produced.sum();
            ensure!((got - want).abs() <= 1e-8 * (1.0 + want.abs()) + 0.5e-9, "{what}: sum = {got}, producer's values sum to {want}");
        }
    }
    Ok(Pass::new()
        .nontrivial(case.spec.dims() >= 2)
        .label(format!("{:?}", case.producer))
        .label(format!("{:?}", case.consumer))
        .label(format!("{:?}", case.link))
        .label(if case.link == Link::File && case.preexisting.is_some() { "overwrites-existing-file" } else { "fresh-output" })
        .label(if case.spec.values.len() > 1024 { ">1024-values" } else { "<=1024-values" })
        .label(format!("intermediate-name={}", ["matching", ".out", "other-format", "none", ".txt"][case.naming.min(4) as usize])))
}

// ---------------------------------------------------------------------------------------------
// text -> npy -> text

#[derive(Clone, Debug, Serialize, Deserialize)]
pub struct TntCase {
    pub shape: Vec<usize>,
    /// integer mantissas; the printed value is mantissa / 10^precision
    pub mantissas: Vec<u64>,
    pub precision: usize,
    pub negative_mask: u64,
}

fn tnt_strategy() -> impl Strategy<Value = TntCase> {
    (shape_strategy(1, 4, 1, 5, 300), prop::collection::vec(prop_oneof![8 => 0u64..1_000_000_000_000_000, 1 => Just(0u64), 1 => 0u64..1000], 300), 0usize..=15, any::<u64>()).prop_map(|(shape, mut m, precision, negative_mask)| {
        m.truncate(elements(&shape));
        TntCase { shape, mantissas: m, precision, negative_mask }
    })
}

fn eval_tnt(ctx: &Ctx, case: &TntCase) -> Verdict {
    // values with at most 15 significant digits: mantissa < 10^15, printed with `precision` decimals
    let p = case.precision;
    let tokens: Vec<String> = case
        .mantissas
        .iter()
        .enumerate()
        .map(|(i, m)| {
            let digits = format!("{m:0>width$}", width = p + 1);
            let (int, frac) = digits.split_at(digits.len() - p);
            // (a negative zero, `-0.000`, is a value the tool itself prints for -0.0 and for tiny negatives)
            let neg = (case.negative_mask >> (i % 64)) & 1 == 1;
            if p == 0 {
                format!("{}{int}", if neg { "-" } else { "" })
            } else {
                format!("{}{int}.{frac}", if neg { "-" } else { "" })
            }
        })
        .collect();
    let header = case.shape.iter().map(|s| s.to_string()).collect::<Vec<_>>().join("/");
    let text = format!("#SHAPE=<{header}>\n{}\n", tokens.join(" "));
    let dir = ctx.worker_dir(crate::engine::worker_id());
    std::fs::write(dir.join("t.sfs"), &text).expect("write");
    let _ = std::fs::remove_file(dir.join("t.npy"));
    let r1 = cli::sfs(ctx, &["view", "-O", "npy", "-o", "t.npy", "t.sfs"], Input::Null, &dir);
    ensure!(r1.ok(), "text -> npy failed: {}", r1.describe());
    let ps = p.to_string();
    let r2 = cli::sfs(ctx, &["view", "--precision", &ps, "t.npy"], Input::Null, &dir);
    ensure!(r2.ok(), "npy -> text failed: {}", r2.describe());
    ensure!(
        r2.stdout == text.as_bytes(),
        "text -> npy -> text at precision {p} does not reproduce the text:\n in: {:?}\nout: {:?}",
        cli::cut(&text, 500),
        cli::cut(&r2.stdout_str(), 500)
    );
    Ok(Pass::new().nontrivial(case.shape.len() >= 2 && p > 0).label(format!("precision={p:02}")))
}

// ---------------------------------------------------------------------------------------------
// `create` as producer

#[derive(Clone, Debug, Serialize, Deserialize)]
pub struct CreateCase {
    pub cs: crate::gen::callset::CallSet,
    pub map: crate::gen::callset::MapSpec,
    pub project: Option<Vec<usize>>,
    pub consumer: Consumer,
    pub link: Link,
}

fn create_strategy() -> impl Strategy<Value = CreateCase> {
    use crate::gen::callset::{callset_strategy, force_record_classes, make_selected_diploid, map_draw_strategy, resolve_map, GenParams};
    let params = GenParams {
        max_records: 20,
        max_samples: 8,
        odd_ploidy: false,
        ..GenParams::default()
    };
    (
        callset_strategy(params),
        map_draw_strategy(8),
        crate::props::c02::target_draw_strategy(),
        prop::bool::weighted(0.4),
        prop_oneof![Just(Consumer::View), Just(Consumer::Fold), Just(Consumer::StatSum)],
        prop_oneof![Just(Link::File), Just(Link::HarnessPipe), Just(Link::ShellPipe)],
    )
        .prop_map(|(mut cs, draw, td, project, consumer, link)| {
            let n = cs.samples.len();
            let map = resolve_map(&draw, n);
            let selected: Vec<bool> = map.assignment(n).iter().map(|a| a.is_some()).collect();
            force_record_classes(&mut cs, &selected);
            make_selected_diploid(&mut cs, &selected);
            let project = if project { Some(crate::props::c02::resolve_targets(&cs, &map, &td)) } else { None };
            CreateCase { cs, map, project, consumer, link }
        })
}

fn eval_create(ctx: &Ctx, case: &CreateCase) -> Verdict {
    use crate::props::common::{create_argv, Container, CreateOpts, Projection};
    let dir = ctx.worker_dir(crate::engine::worker_id());
    std::fs::write(dir.join("c07.vcf"), crate::props::common::render(&case.cs, &Container::Vcf).0).expect("write");
    let opts = CreateOpts {
        map: Some(crate::gen::callset::MapSpec { as_file: false, ..case.map.clone() }),
        project: case.project.clone().map(|m| Projection { m, individuals: false }),
        precision: Some(9),
        ..Default::default()
    };
    let prod_args = create_argv(&case.cs, &opts, Some("c07.vcf"), "unused.samples");
    let produced_run = cli::sfs(ctx, &prod_args, Input::Null, &dir);
    ensure!(produced_run.ok(), "`sfs {}` failed: {}", prod_args.join(" "), produced_run.describe());
    let produced_t = cli::expect_spectrum(&produced_run, "create")?;
    let produced = Spec::new(produced_t.shape.clone(), produced_t.values.clone());
    let cons_args: Vec<String> = match case.consumer {
        Consumer::View => vec!["view".into(), "--precision".into(), "12".into()],
        Consumer::Fold => vec!["fold".into(), "--precision".into(), "12".into(), "--fill".into(), "minus-one".into()],
        Consumer::StatSum => vec!["stat".into(), "-s".into(), "sum".into(), "--precision".into(), "9".into()],
    };
    let final_run = match case.link {
        Link::File => {
            std::fs::write(dir.join("created.sfs"), &produced_run.stdout).expect("write");
            let mut a = cons_args.clone();
            a.push("created.sfs".into());
            cli::sfs(ctx, &a, Input::Null, &dir)
        }
        Link::HarnessPipe | Link::DevStdin | Link::Fifo => cli::sfs(ctx, &cons_args, Input::Pipe(&produced_run.stdout), &dir),
        Link::ShellPipe => {
            let bin = ctx.sfs_bin.to_string_lossy().into_owned();
            let quoted: Vec<String> = prod_args.iter().map(|a| format!("'{}'", a.replace('\'', "'\\''"))).collect();
            let script = format!("set -o pipefail; \"{bin}\" {} 2>/dev/null | \"{bin}\" {}", quoted.join(" "), cons_args.join(" "));
            cli::run_bin(ctx, std::path::Path::new("/bin/bash"), &["-c", &script], Input::Null, &dir, &[])
        }
    };
    let what = format!("create -> {:?} via {:?} (`sfs {}`)", case.consumer, case.link, prod_args.join(" "));
    ensure!(final_run.ok(), "{what}: the consumer did not accept what `create` wrote: {}", final_run.describe());
    let tol = |w: f64| 1e-9 * (1.0 + w.abs());
    match case.consumer {
        Consumer::View => {
            let got = cli::expect_spectrum(&final_run, &what)?;
            ensure!(got.shape == produced.shape && got.values.iter().zip(&produced.values).all(|(g, w)| (g - w).abs() <= tol(*w)), "{what}: consumer read {:?} {:?}, create wrote {:?} {:?}", got.shape, got.values, produced.shape, produced.values);
        }
        Consumer::Fold => {
            let got = cli::expect_spectrum(&final_run, &what)?;
            let want = produced.fold(-1.0);
            ensure!(got.shape == want.shape && got.values.iter().zip(&want.values).all(|(g, w)| (g - w).abs() <= tol(*w)), "{what}: folded values {:?}, expected {:?}", got.values, want.values);
        }
        Consumer::StatSum => {
            let text = final_run.stdout_str();
            let got: f64 = text.trim().parse().map_err(|_| Failure::new(format!("{what}: stat output {text:?}")))?;
            ensure!((got - produced.sum()).abs() <= 1e-6 * (1.0 + produced.sum().abs()), "{what}: sum = {got}, create's values sum to {}", produced.sum());
        }
    }
    Ok(Pass::new().nontrivial(produced.dims() >= 2 || case.project.is_some()).label(format!("create->{:?}", case.consumer)).label(format!("{:?}", case.link)).label(if case.project.is_some() { "projected" } else { "counts" }))
}

pub fn check(ctx: &Ctx) -> Check {
    let parts: Vec<Box<dyn Part>> = vec![
        Box::new(RandomPart {
            name: "lib-roundtrip",
            rule: "shapes with 1..6 axes (<=600 cells; one case in seven has 255..12000 cells with sizes around powers of two) x f64 zoo (+-0, subnormals, 1e300, negatives, NaN payloads, +-inf, values of 1e-18..1e-40) x precision 0..17 (one case in five: 18..60, 100, 330, 400) x {text, npy}: write::Builder -> file -> read::Builder with auto-detected format; npy bit-identical, text within half a unit of the p-th decimal (+1 ulp) for finite values, non-finite values must not make the read fail; non-trivial = (>=2 axes or a special value) and (npy or a value whose p-decimal rounding is not the identity)",
            cases: ctx.tier.pick(12_000, 400_000),
            strategy: Box::new(|| lib_strategy().boxed()),
            eval: Box::new(eval_lib),
        }),
        Box::new(RandomPart {
            name: "cli-pipelines",
            rule: "producer in {view (text), view -O npy, fold} x consumer in {view, fold, stat -s sum} x link in {file via -o (half of them onto an existing, longer file), OS pipe fed by the harness, shell pipe between two sfs processes, a pipe handed over by path as /dev/stdin, a named pipe (mkfifo) handed over by path}: the consumer must accept (exit 0) and its numbers must agree with what the producer wrote; non-trivial = >=2 axes",
            cases: ctx.tier.pick(800, 8000),
            strategy: Box::new(|| pipe_strategy().boxed()),
            eval: Box::new(eval_pipe),
        }),
        Box::new(RandomPart {
            name: "create-as-producer",
            rule: "`sfs create` (with and without projection) as producer for view / fold / stat -s sum through a file, an OS pipe fed by the harness and a shell pipe: accepted, and the consumer's numbers agree with what create printed",
            cases: ctx.tier.pick(400, 4000),
            strategy: Box::new(|| create_strategy().boxed()),
            eval: Box::new(eval_create),
        }),
        Box::new(RandomPart {
            name: "text-npy-text",
            rule: "text spectra whose printed values have <=15 significant digits (mantissa < 10^15, p decimals) -> `view -O npy` -> `view --precision p`: byte-identical to the original text; non-trivial = >=2 axes and p > 0",
            cases: ctx.tier.pick(800, 8000),
            strategy: Box::new(|| tnt_strategy().boxed()),
            eval: Box::new(eval_tnt),
        }),
    ];
    let _ = c05::FILLS;
    Check {
        parts,
        level: "exploration",
        assumptions: vec!["Rust's f64 formatting/parsing is correctly rounded", "text round trip of non-finite values only has to be readable (the statement requires nothing more of them)"],
        post: None,
    }
}
