//! C03 — projection is exact hypergeometric down-sampling at every size; its laws hold.

use proptest::prelude::*;
use serde::{Deserialize, Serialize};

use crate::{
    cli::{self, Input},
    engine::{guard, pick_idx, Ctx, EnumPart, Failure, Part, Pass, RandomPart, Verdict},
    gen::{
        shapes::{all_shapes, elements, flat, odometer, shape_strategy},
        values::{spec_from, Kind},
    },
    model::{
        hyper,
        spec::{close, ProjMatrix, Spec},
    },
    props::{common, Check},
};

pub fn lib_project(spec: &Spec, to: &[usize]) -> Result<Result<Spec, String>, Failure> {
    let scs = spec.to_scs();
    guard(|| scs.project(to.to_vec()).map(|s| Spec::from_scs(&s)).map_err(|e| e.to_string()))
        .map_err(|p| Failure::new(format!("project({:?} -> {to:?}): {p}", spec.shape)))
}

fn must_project(spec: &Spec, to: &[usize]) -> Result<Spec, Failure> {
    match lib_project(spec, to)? {
        Ok(s) => Ok(s),
        Err(e) => Err(Failure::new(format!("project({:?} -> {to:?}) failed: {e}", spec.shape))),
    }
}

/// Tolerance for one coefficient / cell, by the largest chromosome count involved.
fn rel_tol(shape: &[usize]) -> f64 {
    let n = shape.iter().copied().max().unwrap_or(1) - 1;
    if n <= 24 {
        // all binomials are small exact integers: a few roundings per axis
        1e-14 * shape.len() as f64
    } else if n <= 56 {
        // exp(ln n! - ln k! - ln (n-k)!) rounded to an integer may be off by one unit near 1e13
        1e-12 * shape.len() as f64
    } else if n <= 170 {
        1e-10
    } else {
        1e-8
    }
}

#[derive(Clone, Debug, Serialize, Deserialize)]
pub struct ShapeCase {
    pub shape: Vec<usize>,
}

/// Every admissible target of one source shape x every basis vector: operator coefficients.
fn eval_coefficients(_ctx: &Ctx, case: &ShapeCase) -> Verdict {
    let shape = &case.shape;
    let n = elements(shape);
    let tol = rel_tol(shape);
    let mut columns = 0u64;
    let mut interior = 0u64;
    let targets: Vec<Vec<usize>> = odometer(shape).into_iter().map(|idx| idx.iter().map(|i| i + 1).collect()).collect();
    let sources = odometer(shape);
    for to in &targets {
        let pm = ProjMatrix::new(shape, to);
        let to_idx = odometer(to);
        for (pos, k) in sources.iter().enumerate() {
            let mut values = vec![0.0; n];
            values[pos] = 1.0;
            let e = Spec::new(shape.clone(), values);
            let got = must_project(&e, to)?;
            ensure!(got.shape == *to, "project({shape:?} -> {to:?}) returned shape {:?}", got.shape);
            for t in &to_idx {
                let w = pm.coef(k, t);
                let g = got.values[flat(to, t)];
                ensure!(
                    g.is_finite() && (g - w).abs() <= tol * w.abs().max(1e-300) + 1e-300,
                    "projection {shape:?} -> {to:?}: coefficient of source index {k:?} at target index {t:?} is {g}, prod_j Hypergeom(k'_j; n_j, k_j, m_j) = {w}"
                );
            }
            columns += 1;
            if k.iter().zip(shape).any(|(k, n)| *k > 0 && *k < n - 1) {
                interior += 1;
            }
        }
    }
    let mut pass = Pass::new().nontrivial(interior > 0).label(format!("axes={}", shape.len()));
    pass.count("coefficient-columns", columns);
    pass.count("interior-basis-columns", interior);
    Ok(pass)
}

#[derive(Clone, Debug, Serialize, Deserialize)]
pub struct RandomCase {
    pub spec: Spec,
    /// per-axis draws for the final target and an intermediate shape
    pub to_draw: Vec<u16>,
    pub mid_draw: Vec<u16>,
    pub marg_draw: u16,
}

fn random_strategy() -> impl Strategy<Value = RandomCase> {
    (
        spec_from(shape_strategy(1, 4, 1, 9, 420), Kind::Mixed, 420),
        prop::collection::vec(any::<u16>(), 4),
        prop::collection::vec(any::<u16>(), 4),
        any::<u16>(),
    )
        .prop_map(|(spec, to_draw, mid_draw, marg_draw)| RandomCase {
            spec,
            to_draw,
            mid_draw,
            marg_draw,
        })
}

fn eval_random(_ctx: &Ctx, case: &RandomCase) -> Verdict {
    let spec = &case.spec;
    let d = spec.dims();
    let shape = &spec.shape;
    // target: 1..=len per axis; half of the draws are mapped to "equal" to exercise mixed targets
    let to: Vec<usize> = (0..d)
        .map(|j| {
            let draw = case.to_draw[j];
            if draw >= 0xC000 {
                shape[j]
            } else {
                1 + pick_idx(((draw as u32) * 4 / 3).min(0xFFFF) as u16, shape[j])
            }
        })
        .collect();
    let mid: Vec<usize> = (0..d).map(|j| to[j] + pick_idx(case.mid_draw[j], shape[j] - to[j] + 1)).collect();
    let scale: f64 = spec.values.iter().map(|v| v.abs()).sum::<f64>().max(1e-300);
    let tol = 1e-12;

    let want = spec.project(&to);
    let got = must_project(spec, &to)?;
    ensure!(got.shape == to, "project({shape:?} -> {to:?}) returned shape {:?}", got.shape);
    for (i, (g, w)) in got.values.iter().zip(&want.values).enumerate() {
        ensure!(g.is_finite(), "project({shape:?} -> {to:?}): cell {i} is {g} for finite input");
        ensure!(close(*g, *w, tol, scale * 1e-3), "project({:?} -> {to:?}): cell {i} = {g}, direct double sum gives {w}", spec);
        ensure!(*g >= 0.0, "project of a non-negative spectrum has negative cell {i} = {g}");
    }
    ensure!(close(got.sum(), spec.sum(), tol, scale), "projection {shape:?} -> {to:?} changed the mass: {} -> {}", spec.sum(), got.sum());
    // the frequency type-state: projecting the normalised spectrum gives the projection of the
    // normalised values (no renormalisation, clamping or state-dependent shortcut)
    if spec.sum() > 0.0 && spec.values.iter().all(|v| v.is_finite() && *v >= 0.0) {
        let scs = spec.to_scs();
        let to2 = to.clone();
        let r = guard(move || {
            let sfs = scs.into_normalized();
            (Spec::from_scs(&sfs), sfs.project(to2).map(|p| Spec::from_scs(&p)).map_err(|e| e.to_string()))
        })
        .map_err(|p| Failure::new(format!("project of the normalised spectrum ({shape:?} -> {to:?}): {p}")))?;
        let (normalised, projected) = r;
        let projected = projected.map_err(|e| Failure::new(format!("project of the normalised spectrum ({shape:?} -> {to:?}) failed: {e}")))?;
        let want_n = normalised.project(&to);
        for (i, (g, w)) in projected.values.iter().zip(&want_n.values).enumerate() {
            ensure!(close(*g, *w, tol, 1e-3), "project of the normalised spectrum (Sfs) {:?} -> {to:?}: cell {i} = {g}, direct double sum over the normalised values gives {w}", spec);
        }
    }
    // homogeneity: scaling the input by a power of two scales the output exactly (also for tiny weights)
    for e in [-70i32, 40] {
        let c = 2f64.powi(e);
        let scaled = Spec::new(shape.clone(), spec.values.iter().map(|v| v * c).collect());
        let ps = must_project(&scaled, &to)?;
        for (i, (g, w)) in ps.values.iter().zip(&got.values).enumerate() {
            ensure!(*g == *w * c, "project(2^{e} * x) differs from 2^{e} * project(x) at cell {i}: {g:e} vs {:e} (shape {shape:?} -> {to:?})", *w * c);
        }
    }
    // identity
    let id = must_project(spec, shape)?;
    for (i, (g, w)) in id.values.iter().zip(&spec.values).enumerate() {
        ensure!(close(*g, *w, 1e-13, scale * 1e-3), "projecting {shape:?} to the same shape changed cell {i}: {w} -> {g}");
    }
    // two steps == direct
    let step = must_project(&must_project(spec, &mid)?, &to)?;
    for (i, (g, w)) in step.values.iter().zip(&got.values).enumerate() {
        ensure!(close(*g, *w, tol, scale * 1e-3), "projecting {shape:?} -> {mid:?} -> {to:?} differs from projecting directly at cell {i}: {g} vs {w}");
    }
    // commutes with marginalization (naive marginalization on both sides, sfs projection on both sides)
    if d >= 2 {
        let axis = pick_idx(case.marg_draw, d);
        let keep_to: Vec<usize> = (0..d).filter(|a| *a != axis).map(|a| to[a]).collect();
        let a = got.marginalize(&[axis]);
        let b = must_project(&spec.marginalize(&[axis]), &keep_to)?;
        for (i, (x, y)) in a.values.iter().zip(&b.values).enumerate() {
            ensure!(close(*x, *y, tol, scale * 1e-3), "project then marginalize axis {axis} differs from marginalize then project at cell {i}: {x} vs {y} (shape {shape:?} -> {to:?})");
        }
    }
    // errors
    for j in 0..d {
        let mut bigger = to.clone();
        bigger[j] = shape[j] + 1;
        if let Ok(s) = lib_project(spec, &bigger)? {
            fail!("target {bigger:?} larger than the source {shape:?} on axis {j} accepted, returned shape {:?}", s.shape);
        }
        let mut zero = to.clone();
        zero[j] = 0;
        if let Ok(s) = lib_project(spec, &zero)? {
            fail!("target {zero:?} with a zero accepted for source {shape:?}, returned shape {:?}", s.shape);
        }
    }
    let mut longer = to.clone();
    longer.push(1);
    if let Ok(s) = lib_project(spec, &longer)? {
        fail!("target {longer:?} of different dimensionality accepted for source {shape:?}, returned {:?}", s.shape);
    }
    if d >= 2 {
        if let Ok(s) = lib_project(spec, &to[..d - 1])? {
            fail!("target {:?} of different dimensionality accepted for source {shape:?}, returned {:?}", &to[..d - 1], s.shape);
        }
    }

    let strictly = to.iter().zip(shape).any(|(t, s)| t < s);
    let nonzero = spec.values.iter().filter(|v| **v != 0.0).count();
    Ok(Pass::new()
        .nontrivial(strictly && nonzero >= 2)
        .label(format!("axes={d}"))
        .label(if strictly { "strictly-smaller" } else { "identity-target" }))
}

#[derive(Clone, Debug, Serialize, Deserialize)]
pub struct LargeCase {
    /// chromosomes in the source (shape n+1)
    pub n: usize,
    pub m_draw: u16,
    pub cells: Vec<(u16, u16)>,
    /// Some(offset): place the target at the edge of the band where C(n, m) overflows f64
    /// (smallest such m plus offset, or its mirror n - m)
    #[serde(default)]
    pub overflow_edge: Option<(i8, bool)>,
    /// every source cell carries mass (every row of the operator is exercised in one projection),
    /// and the target is a large fraction of the source
    #[serde(default)]
    pub dense: bool,
}

/// ln C(n, m) by a direct sum of logarithms (harness-side, independent of sfs).
fn ln_binom(n: usize, m: usize) -> f64 {
    let m = m.min(n - m);
    (0..m).map(|i| ((n - i) as f64).ln() - ((i + 1) as f64).ln()).sum()
}

#[derive(Clone, Debug, Serialize, Deserialize)]
pub struct NdCase {
    pub shape: Vec<usize>,
    /// target shape
    pub to: Vec<usize>,
}

/// Smallest m with C(n, m) > f64::MAX, if any.
fn overflow_start(n: usize) -> Option<usize> {
    let limit = f64::MAX.ln();
    (1..=n / 2).find(|&m| ln_binom(n, m) > limit)
}

const EDGES: [usize; 21] = [169, 170, 171, 172, 255, 256, 340, 341, 342, 600, 1023, 1024, 1028, 1029, 1030, 1031, 1500, 2047, 2048, 2400, 4096];

fn large_strategy(max_n: usize) -> impl Strategy<Value = LargeCase> {
    (
        prop_oneof![
            6 => any::<u16>().prop_map(|d| EDGES[pick_idx(d, EDGES.len())]),
            2 => 173usize..2400,
            1 => prop_oneof![Just(4095usize), Just(4096), Just(4097), Just(8191), Just(8192)],
            1 => 2000usize..=max_n.max(2001),
        ],
        prop_oneof![1 => Just(0u16), 1 => Just(u16::MAX), 6 => any::<u16>()],
        prop::collection::vec((any::<u16>(), 1u16..1000), 1..4),
        prop::option::weighted(0.35, (-4i8..=14, any::<bool>())),
        1030usize..=2400,
        prop::bool::weighted(0.3),
    )
        .prop_map(move |(n, m_draw, cells, overflow_edge, edge_n, dense)| LargeCase {
            n: if overflow_edge.is_some() { edge_n.min(max_n) } else { n.min(max_n) },
            m_draw,
            cells,
            overflow_edge,
            dense,
        })
}

fn eval_large(_ctx: &Ctx, case: &LargeCase) -> Verdict {
    let n = case.n;
    let mut m = 1 + pick_idx(case.m_draw, n); // 1..=n chromosomes
    if let (Some((off, mirror)), Some(start)) = (case.overflow_edge, overflow_start(n)) {
        let edge = (start as i64 + off as i64).clamp(1, n as i64) as usize;
        m = if mirror { n - edge.min(n - 1) } else { edge };
    }
    if case.dense && case.overflow_edge.is_none() {
        // between a quarter of the source and the full source
        m = n / 4 + pick_idx(case.m_draw, n - n / 4) + 1;
        m = m.min(n);
    }
    let mut values = vec![0.0; n + 1];
    let mut ks = Vec::new();
    if case.dense {
        for (k, v) in values.iter_mut().enumerate() {
            *v = 1.0 + (crate::engine::splitmix64(0xC03 ^ k as u64 ^ (n as u64) << 20) % 97) as f64;
        }
    }
    for (kd, v) in &case.cells {
        let k = pick_idx(*kd, n + 1);
        values[k] += *v as f64;
        ks.push(k);
    }
    let spec = Spec::new(vec![n + 1], values.clone());
    let got = must_project(&spec, &[m + 1])?;
    let mut want = vec![0.0f64; m + 1];
    for (k, x) in values.iter().enumerate() {
        if *x != 0.0 {
            let p = hyper::pmf(n as u64, k as u64, m as u64);
            for (w, p) in want.iter_mut().zip(&p) {
                *w += x * p;
            }
        }
    }
    let total: f64 = values.iter().sum();
    for (i, (g, w)) in got.values.iter().zip(&want).enumerate() {
        ensure!(g.is_finite(), "projecting {} chromosomes to {m}: cell {i} is {g} although the input is finite (non-zero source cells {ks:?})", n);
        ensure!((g - w).abs() <= 1e-8 * w.abs() + 1e-12 * total, "projecting {n} chromosomes to {m}: cell {i} = {g}, hypergeometric oracle gives {w} (source cells {ks:?})");
    }
    let mass: f64 = got.values.iter().sum();
    ensure!((mass - total).abs() <= 1e-8 * total, "projecting {n} -> {m} chromosomes changed the mass {total} -> {mass}");
    Ok(Pass::new()
        .nontrivial(m < n)
        .label(if case.overflow_edge.is_some() && n >= 1030 { "target-at-binomial-overflow-edge" } else { "target-generic" })
        .label(if n <= 170 { "n<=170(table)" } else if n < 1030 { "171..1029(ln-gamma)" } else { "n>=1030(beyond f64 binomials)" })
        .label(if case.dense { "dense-source(every row of the operator)" } else { "sparse-source(1..3 rows)" }))
}

// ---------------------------------------------------------------------------------------------
// CLI

#[derive(Clone, Debug, Serialize, Deserialize)]
pub struct CliCase {
    pub spec: Spec,
    pub to_draw: Vec<u16>,
    pub precision: usize,
    pub individuals: bool,
    pub npy_input: bool,
}

fn cli_strategy() -> impl Strategy<Value = CliCase> {
    (
        spec_from(shape_strategy(1, 3, 1, 9, 730), Kind::Mixed, 730),
        prop::collection::vec(any::<u16>(), 3),
        0usize..=12,
        any::<bool>(),
        any::<bool>(),
    )
        .prop_map(|(spec, to_draw, precision, individuals, npy_input)| CliCase {
            spec,
            to_draw,
            precision,
            individuals,
            npy_input,
        })
}

fn join(v: &[usize]) -> String {
    v.iter().map(|x| x.to_string()).collect::<Vec<_>>().join(",")
}

fn eval_cli(ctx: &Ctx, case: &CliCase) -> Verdict {
    let dir = ctx.worker_dir(crate::engine::worker_id());
    let spec = &case.spec;
    let d = spec.dims();
    let mut to: Vec<usize> = (0..d).map(|j| 1 + pick_idx(case.to_draw[j], spec.shape[j])).collect();
    if case.individuals {
        // -p i means shape 2i+1: round the target down to an odd length
        for t in to.iter_mut() {
            if *t % 2 == 0 {
                *t -= 1;
            }
        }
    }
    let name = if case.npy_input { "in.npy" } else { "in.sfs" };
    std::fs::write(dir.join(name), if case.npy_input { common::npy_bytes(spec) } else { common::text_bytes_exact(spec) }).expect("write");
    let p = case.precision.to_string();
    let run_shape = cli::sfs(ctx, &["view", "--project-shape", &join(&to), "--precision", &p, name], Input::Null, &dir);
    let got = cli::expect_spectrum(&run_shape, &format!("sfs view --project-shape {}", join(&to)))?;
    let want = spec.project(&to);
    ensure!(got.shape == want.shape, "view --project-shape {to:?}: output shape {:?}", got.shape);
    let scale: f64 = spec.values.iter().map(|v| v.abs()).sum();
    for (i, (g, w)) in got.values.iter().zip(&want.values).enumerate() {
        let tol = 0.5 * 10f64.powi(-(case.precision as i32)) * (1.0 + 1e-9) + 1e-11 * scale;
        ensure!((g - w).abs() <= tol, "view --project-shape {to:?} of {:?}: cell {i} printed {}, oracle {w}", spec, got.tokens[i]);
    }
    if case.individuals {
        let ind: Vec<usize> = to.iter().map(|t| (t - 1) / 2).collect();
        let run_ind = cli::sfs(ctx, &["view", "-p", &join(&ind), "--precision", &p, name], Input::Null, &dir);
        ensure!(
            run_ind.code == run_shape.code && run_ind.stdout == run_shape.stdout,
            "`view -p {}` differs from `view --project-shape {}`: {} vs {}",
            join(&ind),
            join(&to),
            run_ind.describe(),
            run_shape.describe()
        );
    }
    // errors through the CLI
    let mut bigger = to.clone();
    bigger[0] = spec.shape[0] + 1;
    let mut zero = to.clone();
    zero[d - 1] = 0;
    let mut longer = to.clone();
    longer.push(1);
    for (what, t) in [("larger target", &bigger), ("zero target", &zero), ("wrong dimensionality", &longer)] {
        let run = cli::sfs(ctx, &["view", "--project-shape", &join(t), name], Input::Null, &dir);
        ensure!(run.clean_failure() && !run.stdout_str().contains("#SHAPE"), "`view --project-shape {}` ({what}) on shape {:?} should fail cleanly: {}", join(t), spec.shape, run.describe());
    }
    let strictly = to.iter().zip(&spec.shape).any(|(t, s)| t < s);
    Ok(Pass::new().nontrivial(strictly && spec.values.iter().filter(|v| **v != 0.0).count() >= 2).label(if case.individuals { "-p" } else { "--project-shape" }))
}

// ---------------------------------------------------------------------------------------------
// projecting after creation == projecting during creation when no genotype is missing

#[derive(Clone, Debug, Serialize, Deserialize)]
pub struct CreateProjectCase {
    pub cs: crate::gen::callset::CallSet,
    pub map: crate::gen::callset::MapSpec,
    pub m: Vec<usize>,
    pub precision: usize,
}

fn create_project_strategy() -> impl Strategy<Value = CreateProjectCase> {
    use crate::gen::callset::{callset_strategy, make_selected_diploid, map_draw_strategy, resolve_map, GenParams, Gt};
    let params = GenParams {
        max_records: 25,
        max_samples: 8,
        odd_ploidy: false,
        missing_weight: 0,
        multi_weight: 0,
        no_gt_per_256: 0,
    };
    (callset_strategy(params), map_draw_strategy(8), prop::collection::vec(any::<u16>(), 4), 3usize..=10).prop_map(|(mut cs, draw, draws, precision)| {
        let n = cs.samples.len();
        let all = vec![true; n];
        make_selected_diploid(&mut cs, &all);
        for r in cs.records.iter_mut() {
            r.has_gt = true;
            for (i, g) in r.gts.iter_mut().enumerate() {
                if !g.is_call() {
                    *g = Gt::diploid(Some((i % 2) as u8), Some(((i + r.pos as usize) % 2) as u8), false);
                }
            }
        }
        let map = resolve_map(&draw, n);
        let m: Vec<usize> = map.pop_sizes().iter().enumerate().map(|(j, s)| pick_idx(draws[j], 2 * s + 1)).collect();
        CreateProjectCase { cs, map, m, precision }
    })
}

fn eval_create_project(ctx: &Ctx, case: &CreateProjectCase) -> Verdict {
    use crate::props::common::{run_create, Container, CreateOpts, Projection, Transport};
    let dir = ctx.worker_dir(crate::engine::worker_id());
    let base = CreateOpts {
        map: Some(case.map.clone()),
        ..Default::default()
    };
    let (full, argv_full) = run_create(ctx, &dir, "c03c", &case.cs, &Container::Vcf, &base, Transport::Path);
    ensure!(full.ok(), "`sfs {}` failed: {}", argv_full.join(" "), full.describe());
    std::fs::write(dir.join("full.sfs"), &full.stdout).expect("write");
    let shape: Vec<usize> = case.m.iter().map(|m| m + 1).collect();
    let p = case.precision.to_string();
    let after = cli::sfs(ctx, &["view", "--project-shape", &join(&shape), "--precision", &p, "full.sfs"], Input::Null, &dir);
    let after = cli::expect_spectrum(&after, "`sfs view --project-shape` after creation")?;
    let during_opts = CreateOpts {
        project: Some(Projection { m: case.m.clone(), individuals: false }),
        precision: Some(case.precision),
        ..base.clone()
    };
    let (during, argv) = run_create(ctx, &dir, "c03c", &case.cs, &Container::Vcf, &during_opts, Transport::Path);
    let during = cli::expect_spectrum(&during, &format!("`sfs {}`", argv.join(" ")))?;
    ensure!(after.shape == during.shape, "shapes differ: after creation {:?}, during creation {:?}", after.shape, during.shape);
    let tol = 10f64.powi(-(case.precision as i32)) * 1.01 + 1e-9 * (1.0 + case.cs.records.len() as f64);
    for (i, (a, b)) in after.values.iter().zip(&during.values).enumerate() {
        ensure!(
            (a - b).abs() <= tol,
            "no genotype is missing, yet projecting after creation and during creation differ at cell {i}: {a} vs {b} (`sfs {}`; target chromosomes {:?}, population sizes {:?})",
            argv.join(" "),
            case.m,
            case.map.pop_sizes()
        );
    }
    let strictly = case.m.iter().zip(case.map.pop_sizes()).any(|(m, n)| *m < 2 * n);
    Ok(Pass::new().nontrivial(strictly && case.cs.records.len() >= 2).label(format!("populations={}", case.m.len())))
}

pub fn check(ctx: &Ctx) -> Check {
    let n1 = ctx.tier.pick(48usize, 120);
    let (l2, l3, l4) = ctx.tier.pick((5usize, 4usize, 3usize), (7, 5, 3));
    let parts: Vec<Box<dyn Part>> = vec![
        Box::new(EnumPart {
            name: "coefficients-1d",
            rule: "every one-axis source size up to N1 = 48 chromosomes (thorough 120) x every target m <= n x every basis vector e_k: project(e_k) must equal the hypergeometric column (exact u128 binomial oracle up to 100 chromosomes); non-trivial = a basis vector with 0 < k < n; distinct by source size",
            exhaustive: true,
            cases: Box::new(move |_| (2..=n1 + 1).map(|len| ShapeCase { shape: vec![len] }).collect()),
            eval: Box::new(eval_coefficients),
        }),
        Box::new(EnumPart {
            name: "coefficients-nd",
            rule: "every 2-axis shape <=5x5, 3-axis <=4^3, 4-axis <=3^4 (thorough 7x7, 5^3) x every admissible target x every basis vector; coefficient = product of per-axis hypergeometric terms; distinct by shape",
            exhaustive: true,
            cases: Box::new(move |_| {
                let mut v: Vec<ShapeCase> = Vec::new();
                for shape in all_shapes(4, 1, l2.max(l3).max(l4)) {
                    let ok = match shape.len() {
                        2 => shape.iter().all(|&l| l <= l2),
                        3 => shape.iter().all(|&l| l <= l3),
                        4 => shape.iter().all(|&l| l <= l4),
                        _ => false,
                    };
                    if ok {
                        v.push(ShapeCase { shape });
                    }
                }
                v
            }),
            eval: Box::new(eval_coefficients),
        }),
        Box::new(RandomPart {
            name: "pmf-direct",
            rule: "the library's public coefficient `utils::hypergeometric_pmf(N, K, n, k)` itself, for population sizes N up to 12 000 chromosomes (weighted on 160..180, 1020..1040 and 2040..2060: the factorial table, the f64 range of binomials), every K <= N and n <= N drawn at random or at the edges (0, 1, N-1, N, N/2): every k in 0..=n and two values beyond against the exact u128 oracle (N <= 100) or the ratio-recurrence oracle, |got - want| <= 1e-9*want + 1e-13, exactly 0 outside the support, finite, summing to 1 within 1e-9; non-trivial = a non-degenerate support (>= 3 values of k with positive mass)",
            cases: ctx.tier.pick(20_000, 400_000),
            strategy: Box::new(|| {
                (prop_oneof![4 => 0u64..=100, 3 => 100u64..=1500, 2 => 160u64..=180, 2 => 1020u64..=1040, 1 => 2040u64..=2060, 1 => 1500u64..=12_000], any::<u16>(), any::<u16>(), any::<u8>())
                    .prop_map(|(size, a, b, edge)| {
                        let pick = |d: u16, e: u8| -> u64 {
                            match e % 8 {
                                0 => 0,
                                1 => size,
                                2 => size.min(1),
                                3 => size.saturating_sub(1),
                                4 => size / 2,
                                _ => pick_idx(d, size as usize + 1) as u64,
                            }
                        };
                        (size, pick(a, edge), pick(b, edge / 8))
                    })
                    .boxed()
            }),
            eval: Box::new(|_ctx: &Ctx, case: &(u64, u64, u64)| {
                let (size, successes, draws) = *case;
                let want = hyper::pmf(size, successes, draws);
                let mut sum = 0.0f64;
                let mut positive = 0usize;
                for k in 0..=draws + 2 {
                    let got = guard(|| sfs_core::utils::hypergeometric_pmf(size, successes, draws, k)).map_err(|p| Failure::new(format!("hypergeometric_pmf({size}, {successes}, {draws}, {k}): {p}")))?;
                    let w = if k <= draws { want[k as usize] } else { 0.0 };
                    let in_support = k <= draws && k <= successes && draws - k <= size - successes;
                    ensure!(got.is_finite() && got >= 0.0, "hypergeometric_pmf({size}, {successes}, {draws}, {k}) = {got}");
                    if !in_support {
                        ensure!(got == 0.0, "hypergeometric_pmf({size}, {successes}, {draws}, {k}) = {got} outside the support");
                    } else {
                        ensure!((got - w).abs() <= 1e-9 * w + 1e-13, "hypergeometric_pmf({size}, {successes}, {draws}, {k}) = {got:e}, the oracle gives {w:e}");
                        if w > 1e-12 {
                            positive += 1;
                        }
                    }
                    sum += got;
                }
                ensure!((sum - 1.0).abs() <= 1e-9, "hypergeometric_pmf({size}, {successes}, {draws}, .) sums to {sum} over k");
                let mut pass = Pass::new().nontrivial(positive >= 3);
                pass.add_label(if size > 1029 { "N>1029" } else if size > 170 { "N=171..1029" } else { "N<=170" });
                Ok(pass)
            }),
        }),
        Box::new(RandomPart {
            name: "laws-random",
            rule: "random spectra (1..4 axes, lengths 1..9, integer/real/sparse non-negative values) x random admissible target: equals the direct double sum, mass, non-negativity, identity, two-step == direct, commutes with marginalization, inadmissible targets rejected; non-trivial = target strictly smaller on >=1 axis and >=2 non-zero source cells",
            cases: ctx.tier.pick(1500, 60_000),
            strategy: Box::new(|| random_strategy().boxed()),
            eval: Box::new(eval_random),
        }),
        Box::new(crate::engine::EnumPart {
            name: "large-nd",
            rule: "spectra of 4 160 .. 8 910 cells in 2..4 axes (every cell carries mass) projected to small and mid-sized targets: every output cell against the direct double sum over the per-axis hypergeometric tables (1e-9 relative), mass preserved",
            exhaustive: false,
            cases: Box::new(|_| {
                let list: Vec<(Vec<usize>, Vec<usize>)> = vec![
                    (vec![65, 64], vec![5, 4]),
                    (vec![65, 64], vec![33, 32]),
                    (vec![65, 64], vec![65, 1]),
                    (vec![3, 2731], vec![2, 9]),
                    (vec![3, 2731], vec![3, 40]),
                    (vec![17, 17, 15], vec![4, 5, 3]),
                    (vec![17, 17, 15], vec![9, 9, 8]),
                    (vec![9, 8, 8, 9], vec![3, 2, 4, 3]),
                    (vec![10, 9, 11, 9], vec![5, 5, 5, 5]),
                    (vec![2, 4099], vec![2, 3]),
                ];
                list.into_iter().map(|(shape, to)| NdCase { shape, to }).collect()
            }),
            eval: Box::new(|_ctx: &Ctx, case: &NdCase| {
                let n: usize = case.shape.iter().product();
                let values: Vec<f64> = (0..n as u64).map(|i| 1.0 + (crate::engine::splitmix64(0xC03D ^ i) % 50) as f64).collect();
                let spec = Spec::new(case.shape.clone(), values);
                let got = must_project(&spec, &case.to)?;
                let want = spec.project(&case.to);
                ensure!(got.shape == want.shape, "project({:?} -> {:?}) has shape {:?}", case.shape, case.to, got.shape);
                for (i, (g, w)) in got.values.iter().zip(&want.values).enumerate() {
                    ensure!((g - w).abs() <= 1e-9 * w.abs() + 1e-300, "project({:?} -> {:?}): flat cell {i} = {g}, the double sum gives {w}", case.shape, case.to);
                }
                let (m0, m1) = (spec.sum(), got.sum());
                ensure!((m0 - m1).abs() <= 1e-9 * m0, "project({:?} -> {:?}) changed the mass {m0} -> {m1}", case.shape, case.to);
                Ok(Pass::new().nontrivial(true).label(format!("axes={}", case.shape.len())))
            }),
        }),
        Box::new(RandomPart {
            name: "large-1d",
            rule: "one-axis sizes around the implementation's edges (169..172, 255/256, 340..342, 1023/1024, 1028..1031, 2047/2048, 4095..4097; thorough also 8191/8192 and random sizes up to 8200 chromosomes), sparse inputs (1..3 source cells) or (30%) dense inputs in which every source cell carries mass and the target is n/4..n, i.e. every row of the operator takes part in one projection; targets 1..n and (35%) targets at the edge of the band where C(n, m) overflows f64: finite, agrees with the ratio-recurrence oracle to 1e-8, mass preserved; non-trivial = m < n",
            cases: ctx.tier.pick(96, 3000),
            strategy: {
                let max_n = ctx.tier.pick(4100usize, 8200);
                Box::new(move || large_strategy(max_n).boxed())
            },
            eval: Box::new(eval_large),
        }),
        Box::new(RandomPart {
            name: "cli-view",
            rule: "sfs view --project-shape / -p on text and npy files vs the oracle at the printed precision; -p i == --project-shape 2i+1 byte for byte; inadmissible targets fail cleanly",
            cases: ctx.tier.pick(200, 6000),
            strategy: Box::new(|| cli_strategy().boxed()),
            eval: Box::new(eval_cli),
        }),
        Box::new(RandomPart {
            name: "create-then-project",
            rule: "call sets without missing data x maps x admissible targets: `create | view --project-shape t` must agree with `create --project-shape t` to the printed precision (3..10 decimals); non-trivial = a strictly smaller target and >=2 records",
            cases: ctx.tier.pick(400, 10_000),
            strategy: Box::new(|| create_project_strategy().boxed()),
            eval: Box::new(eval_create_project),
        }),
    ];
    Check {
        parts,
        level: "exploration",
        assumptions: vec![
            "hypergeometric oracle: exact u128 binomials up to 100 chromosomes, ratio recurrence normalised by its own sum beyond",
            "tolerances: 1e-14 per axis while binomials are exact in f64, 1e-12 up to 170 chromosomes, 1e-8 beyond",
        ],
        post: None,
    }
}
