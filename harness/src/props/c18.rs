//! C18 — results do not depend on how the byte stream is chunked; I/O errors surface.

use std::{
    io::{self, BufRead, Read, Write},
    num::NonZeroUsize,
    sync::{
        atomic::{AtomicBool, Ordering},
        Arc,
    },
};

use proptest::prelude::*;
use serde::{Deserialize, Serialize};

use sfs_core::{
    input::{
        genotype,
        sample::Population,
        site::{self, reader::builder::Samples, Site},
        ReadStatus, Sample,
    },
    spectrum::io::{write, Format},
    Array, Scs,
};

use crate::{
    engine::{guard, pick_idx, Ctx, Failure, Part, Pass, RandomPart, Verdict},
    gen::{
        callset::{callset_strategy, make_selected_diploid, map_draw_strategy, resolve_map, CallSet, GenParams, MapSpec},
        shapes::{elements, shape_strategy},
    },
    props::{
        c16::{npy_file, NpyCase, Source},
        common::{render, Container},
        Check,
    },
};

/// A BufRead that hands out its bytes according to a chunk schedule and can fail at an offset.
pub struct ChunkReader {
    data: Arc<Vec<u8>>,
    pos: usize,
    chunk_end: usize,
    schedule: Vec<usize>,
    next_chunk: usize,
    fail_at: Option<usize>,
    /// transient fault: only the first call at the offset fails
    one_shot: bool,
    /// kind of the injected error (`Other` unless set)
    kind: io::ErrorKind,
    pub error_returned: Arc<AtomicBool>,
}

impl ChunkReader {
    pub fn transient(mut self) -> Self {
        self.one_shot = true;
        self
    }
    pub fn with_kind(mut self, kind: io::ErrorKind) -> Self {
        self.kind = kind;
        self
    }
    pub fn new(data: Arc<Vec<u8>>, schedule: Vec<usize>, fail_at: Option<usize>) -> Self {
        Self {
            data,
            pos: 0,
            chunk_end: 0,
            schedule,
            next_chunk: 0,
            fail_at,
            one_shot: false,
            kind: io::ErrorKind::Other,
            error_returned: Arc::new(AtomicBool::new(false)),
        }
    }
    fn advance_chunk(&mut self) {
        if self.pos >= self.chunk_end {
            let len = if self.schedule.is_empty() {
                usize::MAX
            } else {
                let l = self.schedule[self.next_chunk.min(self.schedule.len() - 1)];
                self.next_chunk += 1;
                l.max(1)
            };
            self.chunk_end = self.pos.saturating_add(len).min(self.data.len());
        }
    }
}

impl BufRead for ChunkReader {
    fn fill_buf(&mut self) -> io::Result<&[u8]> {
        self.advance_chunk();
        let mut end = self.chunk_end;
        if let Some(o) = self.fail_at.filter(|_| !(self.one_shot && self.error_returned.load(Ordering::SeqCst))) {
            if self.pos == o || (o >= self.data.len() && self.pos >= self.data.len()) {
                self.error_returned.store(true, Ordering::SeqCst);
                return Err(io::Error::new(self.kind, "injected read fault"));
            }
            if o > self.pos && o < end {
                end = o;
            }
        }
        Ok(&self.data[self.pos..end])
    }
    fn consume(&mut self, amt: usize) {
        self.pos = (self.pos + amt).min(self.data.len());
    }
}

impl Read for ChunkReader {
    fn read(&mut self, buf: &mut [u8]) -> io::Result<usize> {
        let n = {
            let avail = self.fill_buf()?;
            let n = avail.len().min(buf.len());
            buf[..n].copy_from_slice(&avail[..n]);
            n
        };
        self.consume(n);
        Ok(n)
    }
}

/// Chunk schedule: the first chunk has an enumerated length, later chunks come from `later`
/// (the last entry repeats forever).
fn schedule(first: usize, later: &[u16], one_byte: bool) -> Vec<usize> {
    let mut s = vec![first];
    if one_byte {
        s.push(1);
    } else {
        s.extend(later.iter().map(|d| 1 + (*d as usize % 97) * (1 + (*d as usize >> 12))));
    }
    s
}

// ---------------------------------------------------------------------------------------------
// npy through Array::read_npy

type NpyResult = Result<(Vec<usize>, Vec<u64>), String>;

fn read_npy_from(reader: ChunkReader) -> Result<NpyResult, Failure> {
    guard(move || Array::read_npy(reader).map(|a| (a.shape().as_ref().to_vec(), a.as_slice().iter().map(|v| v.to_bits()).collect())).map_err(|e| e.to_string()))
        .map_err(|p| Failure::new(format!("read_npy over a chunked reader: {p}")))
}

#[derive(Clone, Debug, Serialize, Deserialize)]
pub struct NpyChunkCase {
    pub file: NpyCase,
    pub later: Vec<u16>,
    /// damage: truncate the file to this fraction (0 = intact) so that error vs. success is also compared
    pub truncate: Option<u16>,
}

fn npy_case_strategy() -> impl Strategy<Value = NpyChunkCase> {
    (
        prop_oneof![
            2 => Just(Source::Sfs),
            3 => (any::<u16>(), any::<bool>(), 1u8..=3).prop_map(|(d, big, version)| Source::Numpy { dtype: crate::model::npy::ALL_DTYPES[pick_idx(d, 10)], big, version }),
        ],
        shape_strategy(1, 4, 1, 5, 80),
        any::<u64>(),
        prop::collection::vec(any::<u16>(), 1..6),
        prop::option::weighted(0.2, any::<u16>()),
    )
        .prop_map(|(source, shape, seed, later, truncate)| NpyChunkCase {
            file: NpyCase { source, shape, seed },
            later,
            truncate,
        })
}

fn eval_npy(_ctx: &Ctx, case: &NpyChunkCase) -> Verdict {
    let (mut bytes, _) = npy_file(&case.file)?;
    if let Some(t) = case.truncate {
        let keep = pick_idx(t, bytes.len());
        bytes.truncate(keep);
    }
    let data = Arc::new(bytes);
    let whole = read_npy_from(ChunkReader::new(data.clone(), vec![], None))?;
    let len = data.len();
    let mut schedules = 0u64;
    let mut short_first = 0u64;
    for first in 1..=len.max(1).min(300) {
        for one_byte in [false, true] {
            if one_byte && first > 12 {
                continue;
            }
            let got = read_npy_from(ChunkReader::new(data.clone(), schedule(first, &case.later, one_byte), None))?;
            ensure!(
                got == whole,
                "npy ({:?}, shape {:?}, {len} bytes): first chunk of {first} bytes{} gives {:?}, reading from one slice gives {:?}",
                case.file.source,
                case.file.shape,
                if one_byte { ", then one byte at a time" } else { "" },
                got.as_ref().map(|(s, v)| (s.clone(), v.len())),
                whole.as_ref().map(|(s, v)| (s.clone(), v.len()))
            );
            schedules += 1;
            if first < 12 {
                short_first += 1;
            }
        }
    }
    // fault at every offset (including "at end of data": the reader fails instead of reporting EOF)
    let mut faults = 0u64;
    let mut surfaced = 0u64;
    for o in 0..=len {
        for transient in [false, true] {
            let mut r = ChunkReader::new(data.clone(), schedule(1 + (o * 7) % 23, &case.later, false), Some(o));
            if transient {
                r = r.transient();
            }
            let flag = r.error_returned.clone();
            let got = read_npy_from(r)?;
            faults += 1;
            if flag.load(Ordering::SeqCst) {
                surfaced += 1;
                if let Ok((shape, values)) = &got {
                    fail!(
                        "npy ({:?}, shape {:?}, {len} bytes): the reader failed {} at byte offset {o} but read_npy returned Ok(shape {shape:?}, {} values)",
                        case.file.source,
                        case.file.shape,
                        if transient { "once (transient fault)" } else { "for good" },
                        values.len()
                    );
                }
            }
        }
    }
    let mut pass = Pass::new().nontrivial(short_first > 0 && surfaced > 0);
    pass.count("chunk-schedules", schedules);
    pass.count("fault-offsets", faults);
    pass.count("faults-that-reached-the-consumer", surfaced);
    pass.add_label(if whole.is_ok() { "valid-file" } else { "damaged-file" });
    Ok(pass)
}

// ---------------------------------------------------------------------------------------------
// call sets through the hooked genotype reader builder + the site reader loop

#[derive(Clone, Debug)]
pub(crate) enum CreateResult {
    Spectrum(Vec<usize>, Vec<u64>, usize),
    /// the message is informational and not compared
    Error(String),
}

impl PartialEq for CreateResult {
    fn eq(&self, other: &Self) -> bool {
        match (self, other) {
            (CreateResult::Error(_), CreateResult::Error(_)) => true,
            (CreateResult::Spectrum(a, b, c), CreateResult::Spectrum(x, y, z)) => a == x && b == y && c == z,
            _ => false,
        }
    }
}

fn create_in_process(cs: &CallSet, map: &MapSpec, reader: ChunkReader, threads: usize) -> Result<CreateResult, Failure> {
    create_in_process_declared(cs, map, reader, threads, 0, &Container::Vcf)
}

/// `declared` bit 0: the caller names the (true) format with `set_format`; bit 1: the caller names
/// the (true) compression with `set_compression_method`; 0 = both are detected.
pub(crate) fn create_in_process_declared<R: std::io::BufRead + 'static + std::panic::UnwindSafe>(cs: &CallSet, map: &MapSpec, reader: R, threads: usize, declared: u8, container: &Container) -> Result<CreateResult, Failure> {
    use sfs_core::input::genotype::reader::builder::{CompressionMethod, Format};
    let format = match container {
        Container::Vcf | Container::VcfGz(_) => Format::Vcf,
        Container::Bcf(_) | Container::BcfRaw => Format::Bcf,
    };
    let compression = match container {
        Container::VcfGz(_) | Container::Bcf(_) => Some(CompressionMethod::Bgzf),
        Container::Vcf | Container::BcfRaw => None,
    };
    let list: Vec<(Sample, Population)> = map
        .entries
        .iter()
        .map(|(s, l)| (Sample::from(&cs.samples[*s]), match l {
            Some(l) => Population::from(Some(&map.labels[*l])),
            None => Population::Unnamed,
        }))
        .collect();
    guard(move || {
        let mut builder = genotype::reader::Builder::default().set_threads(NonZeroUsize::new(threads).unwrap());
        if declared & 1 != 0 {
            builder = builder.set_format(format);
        }
        if declared & 2 != 0 {
            builder = builder.set_compression_method(compression);
        }
        let greader = match builder.build_from_bufread(reader) {
            Ok(r) => r,
            Err(e) => return CreateResult::Error(format!("genotype reader: {e}")),
        };
        let mut sreader = match site::reader::Builder::default().set_samples(Some(Samples::List(list))).build(greader) {
            Ok(r) => r,
            Err(e) => return CreateResult::Error(format!("site reader: {e}")),
        };
        let mut scs: Scs = sreader.create_zero_scs();
        let mut sites = 0usize;
        loop {
            match sreader.read_site() {
                ReadStatus::Read(Site::Standard(c)) => scs[c] += 1.0,
                ReadStatus::Read(Site::Projected(p)) => p.add_unchecked(&mut scs),
                ReadStatus::Read(Site::InsufficientData) => {}
                ReadStatus::Error(e) => return CreateResult::Error(format!("site {sites}: {e}")),
                ReadStatus::Done => break,
            }
            sites += 1;
        }
        CreateResult::Spectrum(scs.shape().as_ref().to_vec(), scs.inner().as_slice().iter().map(|v| v.to_bits()).collect(), sites)
    })
    .map_err(|p| Failure::new(format!("in-process create over a chunked reader: {p}")))
}

#[derive(Clone, Debug, Serialize, Deserialize)]
pub struct CsChunkCase {
    pub cs: CallSet,
    pub map: MapSpec,
    pub container: Container,
    pub later: Vec<u16>,
    pub fault_draws: Vec<u16>,
    pub threads: usize,
}

fn cs_case_strategy() -> impl Strategy<Value = CsChunkCase> {
    let params = GenParams {
        max_records: 12,
        max_samples: 6,
        odd_ploidy: true,
        ..GenParams::default()
    };
    (
        callset_strategy(params),
        map_draw_strategy(6),
        prop_oneof![
            1 => Just(Container::Vcf),
            2 => crate::gen::bgzf::layout_strategy().prop_map(Container::VcfGz),
            2 => crate::gen::bgzf::layout_strategy().prop_map(Container::Bcf),
            2 => Just(Container::BcfRaw),
        ],
        prop::collection::vec(any::<u16>(), 1..6),
        prop::collection::vec(any::<u16>(), 24),
        prop_oneof![Just(1usize), Just(2), Just(4)],
        prop::bool::weighted(0.9),
    )
        .prop_map(|(mut cs, draw, container, later, fault_draws, threads, diploid)| {
            if diploid {
                let all = vec![true; cs.samples.len()];
                make_selected_diploid(&mut cs, &all);
            }
            let map = resolve_map(&draw, cs.samples.len());
            CsChunkCase {
                cs,
                map,
                container,
                later,
                fault_draws,
                threads,
            }
        })
}

/// How many leading bytes the detection looks at (computed by the harness from the container).
fn detection_window(container: &Container, bytes: &[u8]) -> usize {
    match container {
        Container::Vcf => 3,
        Container::BcfRaw => 3,
        // gzip magic, then enough of the first non-empty block to decode three bytes: at most the
        // first blocks up to and including the first one with data
        Container::VcfGz(_) | Container::Bcf(_) => {
            let mut p = 0;
            loop {
                if p + 18 > bytes.len() {
                    return bytes.len();
                }
                let bsize = u16::from_le_bytes([bytes[p + 16], bytes[p + 17]]) as usize + 1;
                let isize = u32::from_le_bytes(bytes[p + bsize - 4..p + bsize].try_into().unwrap());
                p += bsize;
                if isize > 0 {
                    return p;
                }
            }
        }
    }
}

const BGZF_HEADER_EOF: &str = "bgzf-block-header-unexpected-eof-taken-for-end-of-stream";

/// Is byte offset `o` inside the 18-byte header of a BGZF block of `bytes`?
fn in_bgzf_header(container: &Container, bytes: &[u8], o: usize) -> bool {
    if !matches!(container, Container::VcfGz(_) | Container::Bcf(_)) {
        return false;
    }
    let mut start = 0usize;
    while start + 18 <= bytes.len() {
        if o >= start && o < start + 18 {
            return true;
        }
        // BSIZE (total block size - 1) sits at bytes 16..18 of the block
        let bsize = u16::from_le_bytes([bytes[start + 16], bytes[start + 17]]) as usize + 1;
        start += bsize;
    }
    o >= start
}

fn eval_cs(ctx: &Ctx, case: &CsChunkCase) -> Verdict {
    let (bytes, _) = render(&case.cs, &case.container);
    let window = detection_window(&case.container, &bytes);
    let data = Arc::new(bytes);
    let len = data.len();
    let whole = create_in_process(&case.cs, &case.map, ChunkReader::new(data.clone(), vec![], None), case.threads)?;
    let known_sig = "detection-depends-on-first-chunk";
    let known = ctx.findings.is_open("C18", known_sig) && !ctx.strict;
    let mut pass = Pass::new();
    let mut schedules = 0u64;
    let mut inside_window = 0u64;
    for first in 1..=len.min(300) {
        for one_byte in [false, true] {
            if one_byte && first > 6 {
                continue;
            }
            if known && first < window {
                pass.excluded.push(known_sig.to_string());
                continue;
            }
            let got = create_in_process(&case.cs, &case.map, ChunkReader::new(data.clone(), schedule(first, &case.later, one_byte), None), case.threads)?;
            ensure!(
                got == whole,
                "{} call set ({len} bytes, {} threads): with a first chunk of {first} bytes{} (detection window {window}) the result is {}, reading the same bytes from one slice gives {}",
                case.container.label(),
                case.threads,
                if one_byte { ", then one byte at a time" } else { "" },
                describe(&got),
                describe(&whole)
            );
            schedules += 1;
            if first < window {
                inside_window += 1;
            }
        }
    }
    // the same with the format and / or the compression named by the caller instead of detected
    // (`set_format`, `set_compression_method`): nothing may then look at how much the first read brought
    let mut declared_schedules = 0u64;
    for declared in 1..=3u8 {
        let whole_d = create_in_process_declared(&case.cs, &case.map, ChunkReader::new(data.clone(), vec![], None), case.threads, declared, &case.container)?;
        for first in (1..=len.min(24)).chain([len / 2, len.saturating_sub(1)]).filter(|f| *f >= 1 && *f <= len) {
            for one_byte in [false, true] {
                if one_byte && first > 3 {
                    continue;
                }
                let got = create_in_process_declared(&case.cs, &case.map, ChunkReader::new(data.clone(), schedule(first, &case.later, one_byte), None), case.threads, declared, &case.container)?;
                ensure!(
                    got == whole_d,
                    "{} call set ({len} bytes, {} threads) with {} named by the caller: with a first chunk of {first} bytes{} the result is {}, reading the same bytes from one slice gives {}",
                    case.container.label(),
                    case.threads,
                    ["", "the format", "the compression", "format and compression"][declared as usize],
                    if one_byte { ", then one byte at a time" } else { "" },
                    describe(&got),
                    describe(&whole_d)
                );
                declared_schedules += 1;
            }
        }
    }
    // faults: every offset < 300 and sampled offsets beyond
    let mut offsets: Vec<usize> = (0..len.min(300)).collect();
    if len > 300 {
        for d in &case.fault_draws {
            offsets.push(300 + pick_idx(*d, len - 300));
        }
        offsets.push(len - 1);
    }
    offsets.push(len);
    // structural boundaries wherever they lie: the first bytes of every BCF record (its two length
    // fields) and the start of every BGZF block -- the places where "no more data" is a legitimate
    // answer and a failing reader could be mistaken for it
    match &case.container {
        Container::BcfRaw => {
            for start in crate::gen::bcf::to_bcf(&case.cs).1.into_iter().take(40) {
                offsets.extend([start, start + 1, start + 4, start + 7].into_iter().filter(|o| *o < len));
            }
        }
        Container::VcfGz(_) | Container::Bcf(_) => {
            let mut start = 0usize;
            let mut blocks = 0;
            while start + 18 <= len && blocks < 60 {
                offsets.push(start);
                start += u16::from_le_bytes([data[start + 16], data[start + 17]]) as usize + 1;
                blocks += 1;
            }
        }
        Container::Vcf => {}
    }
    offsets.sort_unstable();
    offsets.dedup();
    let mut surfaced = 0u64;
    for &o in &offsets {
        // first chunk large enough that detection is not the issue under test here
        for (transient, kind) in [(false, io::ErrorKind::Other), (true, io::ErrorKind::Other), (false, io::ErrorKind::UnexpectedEof), (false, io::ErrorKind::BrokenPipe)] {
            // an error of kind UnexpectedEof is what a truncated lower layer reports; noodles-bgzf
            // takes it for the end of the stream when it arrives inside a block header (open finding)
            if kind == io::ErrorKind::UnexpectedEof && in_bgzf_header(&case.container, &data, o) {
                if ctx.findings.is_open("C18", BGZF_HEADER_EOF) && !ctx.strict {
                    pass.excluded.push(BGZF_HEADER_EOF.to_string());
                    continue;
                }
            }
            let mut r = ChunkReader::new(data.clone(), schedule(window.max(64) + (o % 5), &case.later, false), Some(o)).with_kind(kind);
            if transient {
                r = r.transient();
            }
            let flag = r.error_returned.clone();
            let got = create_in_process(&case.cs, &case.map, r, case.threads)?;
            if flag.load(Ordering::SeqCst) {
                surfaced += 1;
                if let CreateResult::Spectrum(shape, _, sites) = &got {
                    fail!(
                        "{} call set ({len} bytes, {} records, {} threads): the reader failed {} with an error of kind {kind:?} at byte offset {o} but creation succeeded with shape {shape:?} after {sites} sites",
                        case.container.label(),
                        case.cs.records.len(),
                        case.threads,
                        if transient { "once (transient fault)" } else { "for good" }
                    );
                }
            }
        }
    }
    pass.nontrivial = inside_window > 0 || surfaced > 0;
    pass.count("chunk-schedules-with-declared-format-or-compression", declared_schedules);
    pass.count("chunk-schedules", schedules);
    pass.count("first-chunk-inside-detection-window", inside_window);
    pass.count("fault-offsets", offsets.len() as u64);
    pass.count("faults-that-reached-the-consumer", surfaced);
    pass.add_label(case.container.label());
    pass.add_label(match whole {
        CreateResult::Error(_) => "run-fails",
        _ => "run-succeeds",
    });
    Ok(pass)
}

pub(crate) fn describe(r: &CreateResult) -> String {
    match r {
        CreateResult::Error(e) => format!("an error ({e})"),
        CreateResult::Spectrum(shape, v, sites) => format!("a spectrum of shape {shape:?} over {sites} sites (mass {})", v.iter().map(|b| f64::from_bits(*b)).sum::<f64>()),
    }
}

// ---------------------------------------------------------------------------------------------
// short writes and write faults

struct ShortWriter {
    out: Vec<u8>,
    per_call: Vec<usize>,
    calls: usize,
    fail_after: Option<usize>,
    failed: bool,
    /// the fault is transient: exactly one call fails, later calls succeed again
    one_shot: bool,
}

impl Write for ShortWriter {
    fn write(&mut self, buf: &[u8]) -> io::Result<usize> {
        if buf.is_empty() {
            return Ok(0);
        }
        let mut n = self.per_call[self.calls % self.per_call.len()].max(1).min(buf.len());
        self.calls += 1;
        if let Some(limit) = self.fail_after {
            if self.out.len() >= limit && !(self.one_shot && self.failed) {
                self.failed = true;
                return Err(io::Error::new(io::ErrorKind::Other, "injected write fault"));
            }
            if self.out.len() < limit {
                n = n.min(limit - self.out.len());
            }
        }
        self.out.extend_from_slice(&buf[..n]);
        Ok(n)
    }
    fn flush(&mut self) -> io::Result<()> {
        Ok(())
    }
}

#[derive(Clone, Debug, Serialize, Deserialize)]
pub struct WriteCase {
    pub shape: Vec<usize>,
    pub seed: u64,
    pub npy: bool,
    pub precision: usize,
    pub per_call: Vec<usize>,
}

fn write_strategy() -> impl Strategy<Value = WriteCase> {
    (
        prop_oneof![12 => shape_strategy(1, 4, 1, 5, 60).boxed(), 1 => prop_oneof![Just(vec![8192usize]), Just(vec![8193]), Just(vec![91, 91]), Just(vec![1025]), Just(vec![20_000])].boxed()],
        any::<u64>(),
        any::<bool>(),
        0usize..=12,
        prop_oneof![3 => prop::collection::vec(1usize..=7, 1..5), 1 => prop::collection::vec(prop_oneof![Just(4096usize), Just(1000), Just(65_535), 1usize..=7], 1..4)],
    )
        .prop_map(|(shape, seed, npy, precision, per_call)| WriteCase {
        shape,
        seed,
        npy,
        precision,
        per_call,
    })
}

fn eval_write(_ctx: &Ctx, case: &WriteCase) -> Verdict {
    let n = elements(&case.shape);
    let values: Vec<f64> = (0..n as u64).map(|i| (crate::engine::splitmix64(case.seed ^ i) % 1_000_000) as f64 / 128.0).collect();
    let scs = Scs::new(values, case.shape.clone()).map_err(|e| Failure::new(e.to_string()))?;
    let format = if case.npy { Format::Npy } else { Format::Text };
    let builder = || write::Builder::default().set_format(format).set_precision(case.precision);
    let mut full = Vec::new();
    builder().write(&mut full, &scs).map_err(|e| Failure::new(format!("plain write failed: {e}")))?;
    let mut sw = ShortWriter {
        out: Vec::new(),
        per_call: case.per_call.clone(),
        calls: 0,
        fail_after: None,
        failed: false,
        one_shot: false,
    };
    match guard(|| builder().write(&mut sw, &scs)).map_err(Failure::new)? {
        Ok(()) => ensure!(sw.out == full, "a writer accepting {:?} bytes per call received {} bytes, a full writer {} bytes ({format:?}, shape {:?}); first difference at {:?}", case.per_call, sw.out.len(), full.len(), case.shape, sw.out.iter().zip(&full).position(|(a, b)| a != b)),
        Err(e) => fail!("writing through a short-writing writer failed: {e}"),
    }
    let mut surfaced = 0u64;
    // every offset for small outputs; for large ones the first and last 300 offsets, block edges and a stride
    let offsets: Vec<usize> = if full.len() <= 4000 {
        (0..full.len()).collect()
    } else {
        let mut v: Vec<usize> = (0..300).chain(full.len() - 300..full.len()).collect();
        for edge in [1024usize, 4096, 8192, 16_384, 32_768, 65_536, 131_072] {
            for d in [0usize, 1, 2] {
                if edge + d < full.len() {
                    v.push(edge + d);
                    v.push(edge - d - 1);
                }
            }
        }
        v.extend((300..full.len() - 300).step_by(997));
        v
    };
    for o in offsets {
        for one_shot in [false, true] {
            let mut sw = ShortWriter {
                out: Vec::new(),
                per_call: case.per_call.clone(),
                calls: 0,
                fail_after: Some(o),
                failed: false,
                one_shot,
            };
            let r = guard(|| builder().write(&mut sw, &scs)).map_err(Failure::new)?;
            if sw.failed {
                surfaced += 1;
                ensure!(
                    r.is_err(),
                    "the writer failed {} after {o} of {} bytes but write returned Ok ({format:?}, shape {:?}; {} bytes reached the writer)",
                    if one_shot { "once (transient fault)" } else { "for good" },
                    full.len(),
                    case.shape,
                    sw.out.len()
                );
            } else {
                fail!("harness bug: the fault at offset {o} of {} was never triggered", full.len());
            }
        }
    }
    let mut pass = Pass::new().nontrivial(true).label(if case.npy { "npy" } else { "text" });
    pass.count("write-fault-offsets", surfaced);
    Ok(pass)
}

// ---------------------------------------------------------------------------------------------
// real pipes into `sfs create`: first chunk of a chosen length, the rest after the pipe drained

#[derive(Clone, Debug, Serialize, Deserialize)]
pub struct PipeCase {
    pub cs: CallSet,
    pub container: Container,
    pub first: usize,
}

fn pipe_strategy() -> impl Strategy<Value = PipeCase> {
    let params = GenParams {
        max_records: 10,
        max_samples: 5,
        odd_ploidy: false,
        ..GenParams::default()
    };
    (
        callset_strategy(params),
        prop_oneof![
            1 => Just(Container::Vcf),
            2 => Just(Container::VcfGz(crate::gen::bgzf::Layout::plain())),
            2 => Just(Container::Bcf(crate::gen::bgzf::Layout::plain())),
            2 => Just(Container::BcfRaw),
        ],
        prop_oneof![Just(1usize), Just(2), Just(3), 4usize..40, 40usize..400],
    )
        .prop_map(|(cs, container, first)| PipeCase { cs, container, first })
}

pub fn run_with_paced_stdin(ctx: &Ctx, args: &[&str], bytes: &[u8], first: usize, dir: &std::path::Path) -> Result<crate::cli::Run, Failure> {
    use std::os::fd::AsRawFd;
    use std::process::{Command, Stdio};
    ctx.subprocess_runs.fetch_add(1, Ordering::Relaxed);
    let mut child = Command::new(&ctx.sfs_bin)
        .args(args)
        .current_dir(dir)
        .env("SFS_ALLOW_STDIN", "1")
        .env("RUST_BACKTRACE", "0")
        .stdin(Stdio::piped())
        .stdout(Stdio::piped())
        .stderr(Stdio::piped())
        .spawn()
        .map_err(|e| Failure::new(format!("spawn: {e}")))?;
    let mut stdin = child.stdin.take().unwrap();
    let first = first.min(bytes.len());
    let _ = stdin.write_all(&bytes[..first]);
    // wait until the child has drained the pipe (FIONREAD == 0), then a little longer so that its
    // read() has returned with exactly the first chunk
    let fd = stdin.as_raw_fd();
    let start = std::time::Instant::now();
    loop {
        let mut pending: libc::c_int = 0;
        let rc = unsafe { libc::ioctl(fd, libc::FIONREAD, &mut pending) };
        if rc != 0 || pending == 0 || start.elapsed().as_secs() > 5 {
            break;
        }
        std::thread::sleep(std::time::Duration::from_micros(200));
    }
    std::thread::sleep(std::time::Duration::from_millis(3));
    let _ = stdin.write_all(&bytes[first..]);
    drop(stdin);
    let out = child.wait_with_output().map_err(|e| Failure::new(format!("wait: {e}")))?;
    use std::os::unix::process::ExitStatusExt;
    Ok(crate::cli::Run {
        code: out.status.code(),
        signal: out.status.signal(),
        stdout: out.stdout,
        stderr: out.stderr,
        timed_out: false,
        elapsed_ms: 0,
    })
}

fn eval_pipe(ctx: &Ctx, case: &PipeCase) -> Verdict {
    let dir = ctx.worker_dir(crate::engine::worker_id());
    let (bytes, _) = render(&case.cs, &case.container);
    let window = detection_window(&case.container, &bytes);
    let known_sig = "detection-depends-on-first-chunk";
    if ctx.findings.is_open("C18", known_sig) && !ctx.strict && case.first < window {
        let mut p = Pass::new();
        p.excluded.push(known_sig.to_string());
        return Ok(p);
    }
    let path = dir.join(format!("c18.{}", case.container.ext()));
    std::fs::write(&path, &bytes).expect("write");
    let reference = crate::cli::sfs(ctx, &["create", path.file_name().unwrap().to_str().unwrap()], crate::cli::Input::Null, &dir);
    let paced = run_with_paced_stdin(ctx, &["create"], &bytes, case.first, &dir)?;
    ensure!(
        paced.code == reference.code && paced.stdout == reference.stdout,
        "{} on a real pipe whose first chunk is {} bytes (detection window {window}): {} -- by path: {}",
        case.container.label(),
        case.first,
        paced.describe(),
        reference.describe()
    );
    Ok(Pass::new().nontrivial(case.first < window).label(case.container.label()))
}

// ---------------------------------------------------------------------------------------------
// the binary's own stdout failing (ENOSPC): every subcommand must report it

#[derive(Clone, Debug, Serialize, Deserialize)]
pub struct DevFullCase {
    pub argv: Vec<String>,
    pub cells: usize,
}

fn eval_dev_full(ctx: &Ctx, case: &DevFullCase) -> Verdict {
    if !std::path::Path::new("/dev/full").exists() {
        return Ok(Pass::new().label("no-/dev/full"));
    }
    let dir = ctx.worker_dir(crate::engine::worker_id());
    let n = case.cells;
    let spec = crate::model::spec::Spec::new(vec![n], (0..n).map(|i| (i % 97) as f64).collect());
    std::fs::write(dir.join("full.sfs"), crate::props::common::text_bytes_exact(&spec)).expect("write");
    let cs = crate::props::c10::fresh_record(3);
    let callset = CallSet {
        contigs: vec!["ctgF7".into()],
        samples: vec!["a".into(), "b".into(), "c".into()],
        records: (0..n.min(50) as u64).map(|i| crate::gen::callset::Record { pos: i + 1, ..cs.clone() }).collect(),
    };
    std::fs::write(dir.join("full.vcf"), callset.to_vcf()).expect("write");
    let bin = ctx.sfs_bin.to_string_lossy().into_owned();
    let script = format!("\"{bin}\" {} > /dev/full", case.argv.join(" "));
    let run = crate::cli::run_bin(ctx, std::path::Path::new("/bin/bash"), &["-c", &script], crate::cli::Input::Null, &dir, &[]);
    ensure!(!run.panicked(), "`sfs {} > /dev/full` panicked: {}", case.argv.join(" "), run.describe());
    ensure!(matches!(run.code, Some(c) if c != 0), "`sfs {} > /dev/full`: every write fails with ENOSPC, yet the exit status is {:?}: {}", case.argv.join(" "), run.code, run.describe());
    ensure!(!run.stderr.is_empty(), "`sfs {} > /dev/full`: no diagnostic", case.argv.join(" "));
    Ok(Pass::new().nontrivial(true).label(case.argv[0].clone()))
}

#[derive(Clone, Debug, Serialize, Deserialize)]
pub struct SpectrumPipeCase {
    pub file: NpyCase,
    pub text: bool,
    pub first: usize,
    pub command: u8,
}

fn spectrum_pipe_strategy() -> impl Strategy<Value = SpectrumPipeCase> {
    (
        prop_oneof![
            2 => Just(Source::Sfs),
            3 => (any::<u16>(), any::<bool>(), 1u8..=3).prop_map(|(d, big, version)| Source::Numpy { dtype: crate::model::npy::ALL_DTYPES[pick_idx(d, 10)], big, version }),
        ],
        shape_strategy(1, 4, 1, 6, 400),
        any::<u64>(),
        any::<bool>(),
        prop_oneof![Just(1usize), Just(2), Just(5), Just(6), Just(7), 8usize..200],
        0u8..4,
    )
        .prop_map(|(source, shape, seed, text, first, command)| SpectrumPipeCase {
            file: NpyCase { source, shape, seed },
            text,
            first,
            command,
        })
}

fn eval_spectrum_pipe(ctx: &Ctx, case: &SpectrumPipeCase) -> Verdict {
    let dir = ctx.worker_dir(crate::engine::worker_id());
    let bytes = if case.text {
        let n = elements(&case.file.shape);
        let spec = crate::model::spec::Spec::new(case.file.shape.clone(), (0..n as u64).map(|i| (crate::engine::splitmix64(case.file.seed ^ i) % 5000) as f64 / 8.0).collect());
        crate::props::common::text_bytes_exact(&spec)
    } else {
        npy_file(&case.file)?.0
    };
    std::fs::write(dir.join("c18s.bin"), &bytes).expect("write");
    let args: Vec<&str> = match case.command {
        0 => vec!["view", "--precision", "9"],
        1 => vec!["view", "-O", "npy"],
        2 => vec!["fold", "--precision", "9"],
        _ => vec!["stat", "-s", "sum,s", "--precision", "9"],
    };
    let mut by_path: Vec<&str> = args.clone();
    by_path.push("c18s.bin");
    let reference = crate::cli::sfs(ctx, &by_path, crate::cli::Input::Null, &dir);
    let paced = run_with_paced_stdin(ctx, &args, &bytes, case.first, &dir)?;
    ensure!(
        paced.code == reference.code && paced.stdout == reference.stdout,
        "`sfs {}` reading a {} spectrum from a real pipe whose first chunk is {} bytes: {} -- by path: {}",
        args.join(" "),
        if case.text { "text" } else { "npy" },
        case.first,
        paced.describe(),
        reference.describe()
    );
    Ok(Pass::new().nontrivial(case.first < 6).label(if case.text { "text" } else { "npy" }).label(args[0].to_string()))
}

#[derive(Clone, Debug, Serialize, Deserialize)]
pub struct LateFaultCase {
    pub cells: usize,
    /// 0 = view -O npy, 1 = view (text), 2 = fold (text)
    pub command: u8,
}

fn eval_late_fault(ctx: &Ctx, case: &LateFaultCase) -> Verdict {
    let dir = ctx.worker_dir(crate::engine::worker_id());
    let n = case.cells;
    let spec = crate::model::spec::Spec::new(vec![n], (0..n).map(|i| (i % 89) as f64 + 0.25).collect());
    std::fs::write(dir.join("late.sfs"), crate::props::common::text_bytes_exact(&spec)).expect("write");
    let args = match case.command {
        0 => "view -O npy late.sfs",
        1 => "view --precision 4 late.sfs",
        _ => "fold --precision 4 late.sfs",
    };
    let bin = ctx.sfs_bin.to_string_lossy().into_owned();
    let reference = crate::cli::run_bin(ctx, std::path::Path::new("/bin/bash"), &["-c", &format!("\"{bin}\" {args} > late.out")], crate::cli::Input::Null, &dir, &[]);
    ensure!(reference.ok(), "`sfs {args} > file` failed without any limit: {}", reference.describe());
    let full = std::fs::metadata(dir.join("late.out")).map(|m| m.len() as usize).unwrap_or(0);
    ensure!(full > 0, "`sfs {args} > file` wrote nothing");
    // limits (in KiB) below the output size: 0, 1, ..., the last one that still truncates
    let last = (full - 1) / 1024;
    let mut limits: Vec<usize> = (0..=last).collect();
    if limits.len() > 12 {
        let keep: Vec<usize> = (0..12).map(|i| i * last / 11).collect();
        limits.retain(|l| keep.contains(l));
    }
    let mut tried = 0u64;
    for k in limits {
        let _ = std::fs::remove_file(dir.join("late.out"));
        let script = format!("trap '' XFSZ; ulimit -f {k}; \"{bin}\" {args} > late.out");
        let run = crate::cli::run_bin(ctx, std::path::Path::new("/bin/bash"), &["-c", &script], crate::cli::Input::Null, &dir, &[]);
        let written = std::fs::metadata(dir.join("late.out")).map(|m| m.len() as usize).unwrap_or(0);
        ensure!(!run.panicked(), "`sfs {args}` with stdout limited to {k} KiB panicked: {}", run.describe());
        ensure!(
            matches!(run.code, Some(c) if c != 0),
            "`sfs {args} > file` where the file may not grow beyond {k} KiB: the output needs {full} bytes, only {written} arrived, yet the exit status is {:?} and stderr is {:?}",
            run.code,
            crate::cli::cut(&run.stderr_str(), 200)
        );
        ensure!(!run.stderr.is_empty(), "`sfs {args}` with stdout limited to {k} KiB: no diagnostic");
        tried += 1;
    }
    let mut pass = Pass::new().nontrivial(full > 1024).label(["view -O npy", "view (text)", "fold (text)"][case.command as usize % 3].to_string());
    pass.count("limits-tried", tried);
    Ok(pass)
}

fn eval_epipe(ctx: &Ctx, case: &DevFullCase) -> Verdict {
    let dir = ctx.worker_dir(crate::engine::worker_id());
    let n = case.cells;
    let spec = crate::model::spec::Spec::new(vec![n], (0..n).map(|i| (i % 97) as f64 + 0.5).collect());
    std::fs::write(dir.join("full.sfs"), crate::props::common::text_bytes_exact(&spec)).expect("write");
    let bin = ctx.sfs_bin.to_string_lossy().into_owned();
    // the reader takes 10 bytes and closes; the output is far larger than a pipe buffer, so the writer
    // must meet EPIPE before it has delivered everything
    let script = format!("\"{bin}\" {} 2>epipe.err | head -c 10 >/dev/null; echo ${{PIPESTATUS[0]}}", case.argv.join(" "));
    let run = crate::cli::run_bin(ctx, std::path::Path::new("/bin/bash"), &["-c", &script], crate::cli::Input::Null, &dir, &[]);
    let status = run.stdout_str().trim().to_string();
    let stderr = std::fs::read_to_string(dir.join("epipe.err")).unwrap_or_default();
    ensure!(!stderr.contains("panicked at"), "`sfs {} | head -c 10`: panic: {stderr}", case.argv.join(" "));
    ensure!(status != "0", "`sfs {} | head -c 10`: the reader closed the pipe after 10 of > 100 000 bytes, yet sfs exited with status 0 (stderr {stderr:?})", case.argv.join(" "));
    Ok(Pass::new().nontrivial(true).label(case.argv[0].clone()))
}

pub fn check(ctx: &Ctx) -> Check {
    let parts: Vec<Box<dyn Part>> = vec![
        Box::new(RandomPart {
            name: "npy-chunks-and-faults",
            rule: "npy files (all dtypes/versions, both writers, ~20% truncated so that rejection is compared too) read through a BufRead whose fill_buf follows a schedule: first chunk length enumerated 1..min(len,300), later chunks generated, plus 'one byte at a time'; result must equal reading from one slice. Fault: the reader returns an error instead of byte o (persistently, or once only), for EVERY offset 0..=len: if the error was ever returned, read_npy must be Err; non-trivial = first chunks shorter than 12 bytes and faults that reached the consumer (always)",
            cases: ctx.tier.pick(100, 1500),
            strategy: Box::new(|| npy_case_strategy().boxed()),
            eval: Box::new(eval_npy),
        }),
        Box::new(RandomPart {
            name: "callset-chunks-and-faults",
            rule: "call sets in all four containers (generated BGZF layouts) through the hooked genotype::reader::Builder::build_from_bufread (format/compression detection included) and the site-reader loop, threads 1/2/4: first chunk length enumerated 1..min(len,300) (+ one-byte-at-a-time for the shortest), result (spectrum or error) must equal the one-slice result; the first 24 first-chunk lengths (and len/2, len-1) again with the format, the compression, or both named by the caller through `set_format` / `set_compression_method` instead of detected, against the one-slice result of the same declaration; read fault at every offset < 300 plus 24 sampled offsets, the first bytes of every BCF record, the start of every BGZF block, the last byte and end-of-data, each as a persistent and as a one-off fault of kind Other, and as persistent faults of kind UnexpectedEof (what a truncated lower layer reports) and BrokenPipe: if the error was returned, creation must fail (UnexpectedEof inside a BGZF block header is an open dependency finding, excluded by offset and counted); non-trivial = a first chunk shorter than the container's detection window, or a fault that reached the consumer",
            cases: ctx.tier.pick(64, 1500),
            strategy: Box::new(|| cs_case_strategy().boxed()),
            eval: Box::new(eval_cs),
        }),
        Box::new(RandomPart {
            name: "short-writes-and-write-faults",
            rule: "write::Builder::write (text and npy; one case in thirteen has 1 025..20 000 values, i.e. output above 8 KiB / 64 KiB) into a writer accepting 1..7 (or 1000 / 4096 / 65 535) bytes per call: identical bytes; the writer failing after o accepted bytes for EVERY offset o (large outputs: first and last 300 offsets, block edges, a stride), once as a persistent fault and once as a transient one (a single failing call, later calls succeed again): write must return Err",
            cases: ctx.tier.pick(300, 4000),
            strategy: Box::new(|| write_strategy().boxed()),
            eval: Box::new(eval_write),
        }),
        Box::new(RandomPart {
            name: "real-pipes",
            rule: "call sets in all four containers written into `sfs create`'s stdin through a real pipe: a first chunk of 1, 2, 3, .. 400 bytes, then the writer waits until the pipe is drained (FIONREAD) before sending the rest; stdout and exit status must equal the run by path; non-trivial = first chunk shorter than the detection window",
            cases: ctx.tier.pick(40, 300),
            strategy: Box::new(|| pipe_strategy().boxed()),
            eval: Box::new(eval_pipe),
        }),
        Box::new(RandomPart {
            name: "real-pipes-spectra",
            rule: "text and npy spectra (all dtypes/versions) written into the stdin of view / view -O npy / fold / stat through a real pipe with a first chunk of 1..200 bytes (shorter than the 6 magic bytes included), the rest after the pipe drained: stdout and exit status equal the run by path; non-trivial = first chunk shorter than the magic",
            cases: ctx.tier.pick(60, 600),
            strategy: Box::new(|| spectrum_pipe_strategy().boxed()),
            eval: Box::new(eval_spectrum_pipe),
        }),
        Box::new(crate::engine::EnumPart {
            name: "stdout-closed-pipe",
            rule: "view (text and npy), fold with > 100 000 bytes of output piped into a reader that closes after 10 bytes (EPIPE): the exit status must be non-zero (partial data was delivered), no panic",
            exhaustive: false,
            cases: Box::new(|_| {
                let mut v = Vec::new();
                for argv in [vec!["view", "full.sfs"], vec!["view", "-O", "npy", "full.sfs"], vec!["fold", "--fill", "zero", "full.sfs"], vec!["view", "--precision", "15", "full.sfs"]] {
                    v.push(DevFullCase { argv: argv.into_iter().map(String::from).collect(), cells: 40_000 });
                }
                v
            }),
            eval: Box::new(eval_epipe),
        }),
        Box::new(crate::engine::EnumPart {
            name: "stdout-late-fault",
            rule: "`sfs view` (text and npy) and `sfs fold` writing to a redirected stdout whose file may not grow beyond k KiB (RLIMIT_FSIZE with SIGXFSZ ignored, so the write beyond the limit fails with EFBIG as a full disk would with ENOSPC), for outputs of 136 B .. 40 KiB and every k from 0 to just below the output size (at most 12 values of k per output): the fault lies in the middle or in the last partial block of the stream; the run must exit non-zero with a diagnostic -- a success would leave a truncated spectrum behind",
            exhaustive: false,
            cases: Box::new(|_| {
                let mut v = Vec::new();
                for cells in [1usize, 100, 112, 113, 250, 500, 1000, 5000] {
                    for command in 0..3u8 {
                        v.push(LateFaultCase { cells, command });
                    }
                }
                v
            }),
            eval: Box::new(eval_late_fault),
        }),
        Box::new(crate::engine::EnumPart {
            name: "stdout-enospc",
            rule: "every subcommand with its stdout redirected to /dev/full (each write fails with ENOSPC), for outputs below and above the usual 8 KiB buffer: non-zero exit and a diagnostic, no panic",
            exhaustive: false,
            cases: Box::new(|_| {
                let mut v = Vec::new();
                for cells in [1usize, 5, 3000, 20000] {
                    for argv in [
                        vec!["view", "full.sfs"],
                        vec!["view", "-O", "npy", "full.sfs"],
                        vec!["view", "--normalize", "--precision", "12", "full.sfs"],
                        vec!["fold", "full.sfs"],
                        vec!["stat", "-s", "sum", "full.sfs"],
                        vec!["stat", "-H", "-s", "sum,s,pi", "full.sfs"],
                        vec!["create", "full.vcf"],
                        vec!["create", "-p", "2", "full.vcf"],
                    ] {
                        v.push(DevFullCase { argv: argv.into_iter().map(String::from).collect(), cells });
                    }
                }
                v
            }),
            eval: Box::new(eval_dev_full),
        }),
    ];
    Check {
        parts,
        level: "fault_enumeration",
        assumptions: vec![
            "the harness owns the chunk schedule and the fault offset of an in-process BufRead/Write; worker threads inside the BGZF reader are not scheduled by the harness",
            "fault oracle: only if the wrapper actually returned its error must the operation fail (a consumer that never asks for that byte may succeed)",
        ],
        post: None,
    }
}
