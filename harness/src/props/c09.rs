//! C09 — axes follow first appearance of population labels; only listed samples count.

use proptest::prelude::*;
use serde::{Deserialize, Serialize};

use crate::{
    cli,
    engine::{pick_idx, Ctx, Part, Pass, RandomPart, Verdict},
    gen::callset::{callset_strategy, force_record_classes, make_selected_diploid, map_draw_strategy, resolve_map, CallSet, GenParams, MapSpec},
    model::{create::create, spec::Spec},
    props::{
        common::{container_strategy, run_create, Container, CreateOpts, Transport},
        Check,
    },
};

#[derive(Clone, Debug, Serialize, Deserialize)]
pub struct Case {
    pub cs: CallSet,
    pub map: MapSpec,
    pub container: Container,
    /// permutation of the input's sample columns
    pub col_perm: Vec<usize>,
    /// draws used to build the two list permutations
    pub draws: Vec<u16>,
}

fn strategy() -> impl Strategy<Value = Case> {
    let params = GenParams {
        max_records: 25,
        ..GenParams::default()
    };
    (
        callset_strategy(params),
        map_draw_strategy(12),
        container_strategy(),
        Just((0..12usize).collect::<Vec<_>>()).prop_shuffle(),
        prop::collection::vec(any::<u16>(), 16),
    )
        .prop_map(|(mut cs, mut draw, container, perm, draws)| {
            let n = cs.samples.len();
            // this property is about labels: make sure most cases have >= 2 labels
            if draw.n_labels < 2 && draws[0] % 4 != 0 {
                draw.n_labels = 2 + (draws[1] % 3) as usize;
            }
            let map = resolve_map(&draw, n);
            let selected: Vec<bool> = map.assignment(n).iter().map(|a| a.is_some()).collect();
            force_record_classes(&mut cs, &selected);
            make_selected_diploid(&mut cs, &selected);
            let col_perm: Vec<usize> = perm.into_iter().filter(|&i| i < n).collect();
            Case { cs, map, container, col_perm, draws }
        })
}

/// A permutation of the list entries that keeps the first-appearance order of the labels.
fn order_preserving_permutation(map: &MapSpec, draws: &[u16]) -> MapSpec {
    let pops = map.populations();
    let mut anchors: Vec<(usize, Option<usize>)> = Vec::new();
    let mut rest: Vec<(usize, Option<usize>)> = Vec::new();
    let mut seen: Vec<Option<usize>> = Vec::new();
    for e in &map.entries {
        if seen.contains(&e.1) {
            rest.push(*e);
        } else {
            seen.push(e.1);
            anchors.push(*e);
        }
    }
    debug_assert_eq!(seen, pops);
    let mut out = anchors;
    // insert the remaining entries (in a rotated order) anywhere after their label's anchor
    if !rest.is_empty() {
        let r = draws[2] as usize % rest.len();
        rest.rotate_left(r);
    }
    for (k, e) in rest.into_iter().enumerate() {
        let anchor_pos = out.iter().position(|x| x.1 == e.1).unwrap();
        let slots = out.len() - anchor_pos; // positions anchor_pos+1 ..= out.len()
        let at = anchor_pos + 1 + pick_idx(draws[(3 + k) % draws.len()], slots);
        out.insert(at, e);
    }
    MapSpec { entries: out, ..map.clone() }
}

/// A permutation of the entries that (usually) changes the label order.
fn order_changing_permutation(map: &MapSpec, draws: &[u16]) -> MapSpec {
    let mut entries = map.entries.clone();
    entries.reverse();
    if entries.len() > 2 {
        let r = draws[9] as usize % entries.len();
        entries.rotate_left(r);
    }
    MapSpec { entries, ..map.clone() }
}

fn eval(ctx: &Ctx, case: &Case) -> Verdict {
    let dir = ctx.worker_dir(crate::engine::worker_id());
    let n = case.cs.samples.len();
    let want = create(&case.cs, &case.map, None);
    ensure!(want.first_error.is_none(), "generator bug: ploidy error");
    let opts = |map: &MapSpec| CreateOpts {
        map: Some(map.clone()),
        ..Default::default()
    };
    // baseline + absolute oracle
    let (base, argv) = run_create(ctx, &dir, "c09", &case.cs, &case.container, &opts(&case.map), Transport::Path);
    let what = format!("`sfs {}` ({})", argv.join(" "), case.container.label());
    let got = cli::expect_spectrum(&base, &what)?;
    let sizes = case.map.pop_sizes();
    let want_shape: Vec<usize> = sizes.iter().map(|s| 2 * s + 1).collect();
    ensure!(got.shape == want_shape, "{what}: axes {:?}; labels in first-appearance order have {sizes:?} listed samples, i.e. axis lengths {want_shape:?}", got.shape);
    ensure!(got.values == want.spectrum.values, "{what}: values {:?}, reference model {:?}", got.values, want.spectrum.values);

    // (i) permute the sample columns of the input
    let permuted_cs = case.cs.permute_samples(&case.col_perm);
    // the map refers to samples by index into case.cs: translate to the permuted call set
    let inv: Vec<usize> = (0..n).map(|old| case.col_perm.iter().position(|&p| p == old).unwrap()).collect();
    let permuted_map = MapSpec {
        entries: case.map.entries.iter().map(|(s, l)| (inv[*s], *l)).collect(),
        ..case.map.clone()
    };
    let (r1, a1) = run_create(ctx, &dir, "c09p", &permuted_cs, &case.container, &opts(&permuted_map), Transport::Path);
    ensure!(r1.code == base.code && r1.stdout == base.stdout, "reordering the sample columns of the input ({:?}) changed the output: {} vs `sfs {}`: {}", case.col_perm, base.describe(), a1.join(" "), r1.describe());

    // (i-b) the same with a record in which one listed sample is missing and another is not diploid:
    // whichever column comes first, the outcome (a failing run) is the same
    if case.map.entries.len() >= 2 && !case.cs.records.is_empty() {
        let a = case.map.entries[0].0;
        let b = case.map.entries[case.map.entries.len() - 1].0;
        let ri = (case.draws[14] as usize) % case.cs.records.len();
        let mut faulty = case.cs.clone();
        faulty.records[ri].has_gt = true;
        faulty.records[ri].gts[a] = crate::gen::callset::Gt::diploid(None, None, false);
        faulty.records[ri].gts[b] = crate::gen::callset::Gt { alleles: vec![Some(1)], phased: vec![] };
        let (f0, fa0) = run_create(ctx, &dir, "c09f", &faulty, &case.container, &opts(&case.map), Transport::Path);
        let (f1, fa1) = run_create(ctx, &dir, "c09g", &faulty.permute_samples(&case.col_perm), &case.container, &opts(&permuted_map), Transport::Path);
        // and with the two roles exchanged (the missing sample after the non-diploid one)
        let mut swapped = faulty.clone();
        swapped.records[ri].gts.swap(a, b);
        let (f2, fa2) = run_create(ctx, &dir, "c09h", &swapped, &case.container, &opts(&case.map), Transport::Path);
        for (r, argv_f) in [(&f0, &fa0), (&f1, &fa1), (&f2, &fa2)] {
            ensure!(
                r.clean_failure() && r.stdout.is_empty(),
                "a record with a missing and a non-diploid genotype among the listed samples must fail the run whatever the column order: `sfs {}`: {}",
                argv_f.join(" "),
                r.describe()
            );
        }
    }

    // (ii) permute list entries keeping the first-appearance order of labels
    let keep = order_preserving_permutation(&case.map, &case.draws);
    let (r2, a2) = run_create(ctx, &dir, "c09", &case.cs, &case.container, &opts(&keep), Transport::Path);
    ensure!(r2.code == base.code && r2.stdout == base.stdout, "reordering list entries while keeping the label order changed the output: `sfs {}`: {} vs `sfs {}`: {}", argv.join(" "), base.describe(), a2.join(" "), r2.describe());

    // (iii) --samples vs --samples-file
    let flipped = MapSpec { as_file: !case.map.as_file, ..case.map.clone() };
    let (r3, a3) = run_create(ctx, &dir, "c09", &case.cs, &case.container, &opts(&flipped), Transport::Path);
    ensure!(r3.code == base.code && r3.stdout == base.stdout, "--samples and --samples-file with the same content differ: `sfs {}`: {} vs `sfs {}`: {}", argv.join(" "), base.describe(), a3.join(" "), r3.describe());

    // (iii-b) the same samples file without a final newline, and with CRLF line endings
    {
        let input = argv.last().expect("input path").clone();
        let text = case.map.file_text(&case.cs);
        for (what, content) in [
            ("without a final newline", text.trim_end_matches('\n').to_string()),
            ("with CRLF line endings", text.replace('\n', "\r\n")),
            ("with CRLF line endings and no final line feed", text.trim_end_matches('\n').replace('\n', "\r\n") + "\r"),
            ("with CRLF line endings and nothing after the last entry", text.trim_end_matches('\n').replace('\n', "\r\n")),
        ] {
            std::fs::write(dir.join("c09v.samples"), content).expect("write");
            let r = cli::sfs(ctx, &["create", "-S", "c09v.samples", &input], cli::Input::Null, &dir);
            ensure!(r.code == base.code && r.stdout == base.stdout, "the samples file {what} gives a different result than the inline list `{}`: {} vs {}", case.map.inline_arg(&case.cs), r.describe(), base.describe());
        }
    }

    // (iii-c) the samples file handed over as something that is not a regular file: a pipe behind
    // /dev/stdin (what `-S <(cut ...)` or `... | sfs create -S /dev/stdin` amount to)
    {
        let input = argv.last().expect("input path").clone();
        let text = case.map.file_text(&case.cs);
        let r = cli::sfs(ctx, &["create", "-S", "/dev/stdin", &input], cli::Input::Pipe(text.as_bytes()), &dir);
        ensure!(r.code == base.code && r.stdout == base.stdout, "the samples file read from a pipe (`-S /dev/stdin`) gives a different result than the inline list `{}`: {} vs {}", case.map.inline_arg(&case.cs), r.describe(), base.describe());
    }

    // (iv) a permutation that changes the label order permutes the axes correspondingly
    let changed = order_changing_permutation(&case.map, &case.draws);
    let (r4, a4) = run_create(ctx, &dir, "c09", &case.cs, &case.container, &opts(&changed), Transport::Path);
    let got4 = cli::expect_spectrum(&r4, &format!("`sfs {}`", a4.join(" ")))?;
    let old_pops = case.map.populations();
    let new_pops = changed.populations();
    // new axis j is old axis perm[j]
    let perm: Vec<usize> = new_pops.iter().map(|p| old_pops.iter().position(|q| q == p).unwrap()).collect();
    let transposed = Spec::new(got.shape.clone(), got.values.clone()).permute_axes(&perm);
    ensure!(
        got4.shape == transposed.shape && got4.values == transposed.values,
        "reordering the labels (axes permutation {perm:?}) should permute the axes of {:?} {:?} into {:?} {:?}, got {:?} {:?} from `sfs {}`",
        got.shape,
        got.values,
        transposed.shape,
        transposed.values,
        got4.shape,
        got4.values,
        a4.join(" ")
    );

    // errors: a listed sample that is absent from the input; an empty samples file
    {
        let mut ghost_cs = case.cs.clone();
        ghost_cs.samples.push("ghost_sample_zz".into());
        let mut ghost_map = case.map.clone();
        let at = pick_idx(case.draws[12], ghost_map.entries.len() + 1);
        ghost_map.entries.insert(at, (n, ghost_map.entries[0].1));
        // render the real call set, but build the argv against the extended sample list
        let (bytes, _) = crate::props::common::render(&case.cs, &case.container);
        let (rg, ag) = crate::props::common::run_create_bytes(ctx, &dir, "c09g", &ghost_cs, &bytes, case.container.ext(), &opts(&ghost_map), Transport::Path);
        ensure!(rg.clean_failure() && rg.stdout.is_empty(), "a listed sample that is absent from the input must be an error: `sfs {}`: {}", ag.join(" "), rg.describe());
        // ... whatever else is asked for: with a projection (both spellings), strict, quiet
        let pops = ghost_map.pop_sizes().len();
        for (k, extra) in [
            CreateOpts { project: Some(crate::props::common::Projection { m: vec![2; pops], individuals: true }), ..opts(&ghost_map) },
            CreateOpts { project: Some(crate::props::common::Projection { m: vec![1; pops], individuals: false }), ..opts(&ghost_map) },
            CreateOpts { strict: true, quiet: 1, ..opts(&ghost_map) },
        ]
        .into_iter()
        .enumerate()
        {
            if k != (case.draws[13] as usize) % 3 {
                continue;
            }
            let (rg, ag) = crate::props::common::run_create_bytes(ctx, &dir, "c09g", &ghost_cs, &bytes, case.container.ext(), &extra, Transport::Path);
            ensure!(rg.clean_failure() && rg.stdout.is_empty(), "a listed sample that is absent from the input must be an error: `sfs {}`: {}", ag.join(" "), rg.describe());
        }
        std::fs::write(dir.join("empty.samples"), "").expect("write");
        let input = argv.last().expect("input path").clone();
        let re = cli::sfs(ctx, &["create", "-S", "empty.samples", &input], cli::Input::Null, &dir);
        ensure!(re.clean_failure() && re.stdout.is_empty(), "an empty samples file must be an error: {}", re.describe());
        let re = cli::sfs(ctx, &["create", "-s", "", &input], cli::Input::Null, &dir);
        ensure!(re.clean_failure() && re.stdout.is_empty(), "an empty inline sample list (`-s \"\"`) must be an error: {}", re.describe());
        // the library's in-memory list (`Samples::List`), which the command line cannot make empty
        let empty = MapSpec { entries: vec![], labels: vec![], as_file: false };
        for project in [None, Some(&[][..])] {
            match crate::props::c11::build_reader(&case.cs, &case.cs.records, &empty, project) {
                Err(f) if f.message.starts_with("site reader builder failed") => {}
                Err(f) => return Err(f),
                Ok(_) => fail!("an empty sample list (`Samples::List(vec![])`, projection {project:?}) must be an error, but `site::reader::Builder::build` returned a reader for the {} samples of the input", case.cs.samples.len()),
            }
        }
    }

    let identity = case.col_perm.iter().enumerate().all(|(i, p)| i == *p);
    let unequal = sizes.len() >= 2 && sizes.iter().any(|s| *s != sizes[0]);
    let mut pass = Pass::new().nontrivial(unequal && !identity);
    pass.add_label(format!("populations={}", sizes.len()));
    if perm.iter().enumerate().any(|(i, p)| i != *p) {
        pass.add_label("label-order-changed");
    }
    if keep.entries != case.map.entries {
        pass.add_label("order-preserving-permutation-not-identity");
    }
    if case.map.entries.iter().any(|e| e.1.is_none()) && case.map.entries.iter().any(|e| e.1.is_some()) {
        pass.add_label("named-and-unnamed-mixed");
    }
    pass.add_label(case.container.label());
    Ok(pass)
}

pub fn check(ctx: &Ctx) -> Check {
    let parts: Vec<Box<dyn Part>> = vec![Box::new(RandomPart {
        name: "axes-and-permutations",
        rule: "call sets x duplicate-free sample lists (subset, order, named/unnamed mix, 1..4 labels) x a permutation of the input's sample columns x two permutations of the list: absolute (reference model: axes in first-appearance order, lengths 2*count+1, exact values) and metamorphic, all byte-identical stdout: permuted sample columns, list permuted keeping the label order, --samples vs --samples-file; a list permutation changing the label order by pi must give the baseline with axes transposed by pi; the samples file also without final newline, with CRLF (complete, cut after the last CR, cut before it), and read from a pipe (`-S /dev/stdin`); a record with a missing and a non-diploid listed sample fails the run in every column order; ghost sample (alone, and with a projection / --strict -q), empty samples file, empty inline list and the library's empty `Samples::List` (with and without a projection) are errors; ~11 runs per case; non-trivial = >=2 labels with different sample counts and a non-identity column permutation",
        cases: ctx.tier.pick(2000, 60_000),
        strategy: Box::new(|| strategy().boxed()),
        eval: Box::new(eval),
    })];
    Check {
        parts,
        level: "exploration",
        assumptions: vec!["reference model of create", "sample lists are duplicate-free (duplicates belong to C17)"],
        post: None,
    }
}
