//! C16 — damaged spectrum files are rejected, never read as a different spectrum.

use proptest::prelude::*;
use serde::{Deserialize, Serialize};

use sfs_core::{spectrum::io::read, Input as SfsInput};

use crate::{
    cli::{self, Input},
    engine::{guard, pick_idx, Ctx, Failure, Part, Pass, RandomPart, Verdict},
    gen::shapes::{elements, shape_strategy},
    model::npy::{self, Dtype, Order, ALL_DTYPES},
    props::{
        c15::{boundary_bits, lib_read_npy, lib_write_npy},
        Check,
    },
};

#[derive(Clone, Debug, Serialize, Deserialize)]
pub enum Source {
    /// written by sfs's own writer
    Sfs,
    /// laid out as numpy writes it
    Numpy { dtype: Dtype, big: bool, version: u8 },
    /// as numpy before 1.14 wrote it: header padded to a multiple of 16 only, so that the data need
    /// not start on a 64-byte boundary; the first `blanks` data bytes are spaces or line feeds
    /// (what header padding is made of)
    Unpadded { dtype: Dtype, big: bool, blanks: u8, line_feed: bool },
}

#[derive(Clone, Debug, Serialize, Deserialize)]
pub struct NpyCase {
    pub source: Source,
    pub shape: Vec<usize>,
    pub seed: u64,
}

pub fn npy_file(case: &NpyCase) -> Result<(Vec<u8>, usize), Failure> {
    let n = elements(&case.shape);
    match &case.source {
        Source::Sfs => {
            let bits: Vec<u64> = (0..n as u64).map(|i| ((crate::engine::splitmix64(case.seed ^ i) % 100_000) as f64 * 0.5).to_bits()).collect();
            Ok((lib_write_npy(&case.shape, &bits)?, 8))
        }
        Source::Numpy { dtype, big, version } => {
            let bounds = boundary_bits(*dtype);
            let mask = if dtype.size() == 8 { u64::MAX } else { (1u64 << (8 * dtype.size())) - 1 };
            let order = if *big { Order::Big } else { Order::Little };
            let dict = npy::numpy_dict(&npy::descr(*dtype, order), false, &case.shape);
            let mut out = npy::wrap_header(&dict, *version, 64);
            for i in 0..n as u64 {
                let r = crate::engine::splitmix64(case.seed ^ i);
                let bits = if r % 3 == 0 { bounds[(r as usize / 3) % bounds.len()] } else { r & mask };
                npy::encode_element(*dtype, order, bits, &mut out);
            }
            Ok((out, dtype.size()))
        }
        Source::Unpadded { dtype, big, blanks, line_feed } => {
            let order = if *big { Order::Big } else { Order::Little };
            let dict = npy::numpy_dict(&npy::descr(*dtype, order), false, &case.shape);
            let mut out = npy::wrap_header(&dict, 1, 16);
            let start = out.len();
            let mask = if dtype.size() == 8 { u64::MAX } else { (1u64 << (8 * dtype.size())) - 1 };
            for i in 0..n as u64 {
                npy::encode_element(*dtype, order, crate::engine::splitmix64(case.seed ^ i) & mask & 0x3fff_ffff_ffff_ffff, &mut out);
            }
            let end = out.len();
            for b in out[start..end.min(start + *blanks as usize)].iter_mut() {
                *b = if *line_feed { b'\n' } else { b' ' };
            }
            Ok((out, dtype.size()))
        }
    }
}

fn npy_strategy() -> impl Strategy<Value = NpyCase> {
    (
        prop_oneof![
            2 => Just(Source::Sfs),
            3 => (any::<u16>(), any::<bool>(), 1u8..=3).prop_map(|(d, big, version)| Source::Numpy { dtype: ALL_DTYPES[pick_idx(d, ALL_DTYPES.len())], big, version }),
            1 => (any::<u16>(), any::<bool>(), 0u8..=20, any::<bool>()).prop_map(|(d, big, blanks, line_feed)| Source::Unpadded { dtype: ALL_DTYPES[pick_idx(d, ALL_DTYPES.len())], big, blanks, line_feed }),
        ],
        prop_oneof![
            12 => shape_strategy(1, 5, 1, 4, 60).boxed(),
            // data sections that are whole multiples of (or just beside) 512 B .. 64 KiB read blocks
            2 => prop_oneof![
                Just(vec![1024usize]), Just(vec![2048]), Just(vec![4096]), Just(vec![8192]), Just(vec![32, 32]), Just(vec![2, 8, 64]), Just(vec![64]), Just(vec![128]), Just(vec![512]),
                Just(vec![1023]), Just(vec![1025]), Just(vec![3, 683]), Just(vec![16_384]),
            ].boxed(),
        ],
        any::<u64>(),
    )
        .prop_map(|(source, shape, seed)| NpyCase { source, shape, seed })
}

fn must_reject(bytes: &[u8], what: &str) -> Result<(), Failure> {
    match lib_read_npy(bytes).map_err(|f| Failure::new(format!("{what}: {}", f.message)))? {
        Err(_) => Ok(()),
        Ok((shape, values)) => Err(Failure::new(format!("{what}: accepted as a spectrum of shape {shape:?} with {} values", values.len()))),
    }
}

fn eval_npy(_ctx: &Ctx, case: &NpyCase) -> Verdict {
    let (bytes, item) = npy_file(case)?;
    // sanity: the undamaged file is accepted (otherwise the fault sweep would be vacuous)
    match lib_read_npy(&bytes)? {
        Ok((shape, _)) => ensure!(shape == case.shape, "undamaged file read with shape {shape:?}"),
        Err(e) => fail!("the undamaged file ({:?}, shape {:?}) is rejected: {e}", case.source, case.shape),
    }
    let header = npy::parse_header(&bytes).map_err(Failure::new)?;
    let data_start = header.data_offset;
    let mut pass = Pass::new();
    let mut damaged = 0u64;
    let mut delicate = 0u64;
    // every prefix of a small file; for large ones the header, the first and last 80 data bytes and
    // 20 bytes either side of every multiple of 512
    let cuts: Vec<usize> = if bytes.len() <= 2000 {
        (0..bytes.len()).collect()
    } else {
        let mut v: Vec<usize> = (0..data_start + 80).chain(bytes.len() - 80..bytes.len()).collect();
        let mut edge = 512usize;
        while edge < bytes.len() {
            for base in [edge, data_start + edge] {
                v.extend((base.saturating_sub(20)..base + 20).filter(|c| *c < bytes.len()));
            }
            edge += if edge < 8192 { 512 } else { 4096 };
        }
        v.sort_unstable();
        v.dedup();
        v
    };
    for cut in cuts {
        must_reject(&bytes[..cut], &format!("{:?} shape {:?}: prefix of {cut} of {} bytes (data starts at {data_start})", case.source, case.shape, bytes.len()))?;
        damaged += 1;
        let at_value_boundary = cut >= data_start && (cut - data_start) % item == 0;
        let in_len_field = (8..data_start.min(12)).contains(&cut);
        let in_padding = cut < data_start && cut + 1 < data_start && bytes[cut] == b' ' && bytes[cut + 1..data_start - 1].iter().all(|&b| b == b' ');
        if at_value_boundary || in_len_field || in_padding {
            delicate += 1;
        }
    }
    let last: Vec<u8> = bytes[bytes.len() - item..].to_vec();
    for extra in 1..=16usize {
        let r = crate::engine::splitmix64(case.seed ^ (extra as u64) << 32);
        let fills: [Vec<u8>; 6] = [
            vec![0u8; extra],
            (0..extra).map(|i| (r >> ((i % 8) * 8)) as u8 | 1).collect(),
            last.iter().cycle().take(extra).copied().collect(),
            vec![b'\n'; extra],
            vec![b' '; extra],
            // the beginning of another npy file (two arrays saved to one stream)
            bytes.iter().cycle().take(extra).copied().collect(),
        ];
        for (k, fill) in fills.iter().enumerate() {
            let mut ext = bytes.clone();
            ext.extend(fill);
            must_reject(&ext, &format!("{:?} shape {:?}: valid file extended by {extra} bytes (fill kind {k})", case.source, case.shape))?;
            damaged += 1;
            if extra % item == 0 {
                delicate += 1;
            }
        }
    }
    // the file followed by a complete second copy of itself, and by the header of a second file
    {
        let mut twice = bytes.clone();
        twice.extend(&bytes);
        must_reject(&twice, &format!("{:?} shape {:?}: the file followed by a second copy of itself", case.source, case.shape))?;
        let mut with_header = bytes.clone();
        with_header.extend(&bytes[..data_start]);
        must_reject(&with_header, &format!("{:?} shape {:?}: the file followed by a second npy header", case.source, case.shape))?;
        damaged += 2;
    }
    // value count differing from the declared shape by whole values (header edited)
    for delta in [-2i64, -1, 1, 2, 7] {
        let n = elements(&case.shape) as i64;
        if n + delta < 0 {
            continue;
        }
        let mut edited = bytes[..data_start].to_vec();
        let payload = &bytes[data_start..];
        if delta < 0 {
            edited.extend(&payload[..payload.len() - (-delta as usize) * item]);
        } else {
            edited.extend(payload);
            for _ in 0..delta {
                edited.extend(&last);
            }
        }
        must_reject(&edited, &format!("{:?} shape {:?}: {} values instead of {n}", case.source, case.shape, n + delta))?;
        damaged += 1;
        delicate += 1;
    }
    pass.count("damaged-byte-strings", damaged);
    pass.count("delicate-faults(value boundary / padding / length field)", delicate);
    pass.nontrivial = delicate > 0;
    pass.add_label(match &case.source {
        Source::Sfs => "sfs-writer".to_string(),
        Source::Numpy { dtype, big, version } => format!("numpy-{}{}-v{version}", if *big { ">" } else { "<" }, dtype.code()),
        Source::Unpadded { blanks, .. } => format!("numpy-header-padded-to-16-data-begins-with-{}-blank-bytes", if *blanks == 0 { "0" } else if *blanks <= 16 { "1..16" } else { ">16" }),
    });
    Ok(pass)
}

// ---------------------------------------------------------------------------------------------
// text edits

#[derive(Clone, Debug, Serialize, Deserialize)]
pub enum TextEdit {
    RemoveTokens { at: u16, count: usize },
    /// `sep`: 0 = space, 1 = tab, 2 = line feed between the inserted tokens and their neighbours;
    /// `after_final_newline`: append the tokens after the file's final newline instead
    InsertTokens { at: u16, count: usize, #[serde(default)] sep: u8, #[serde(default)] after_final_newline: bool },
    ChangeLength { axis: u16, delta: i8 },
    AddAxis { at: u16, len: usize },
    DropAxis { at: u16 },
}

#[derive(Clone, Debug, Serialize, Deserialize)]
pub struct TextCase {
    pub shape: Vec<usize>,
    pub seed: u64,
    pub precision: usize,
    pub edit: TextEdit,
}

fn text_strategy() -> impl Strategy<Value = TextCase> {
    (
        shape_strategy(1, 4, 1, 5, 200),
        any::<u64>(),
        0usize..=8,
        prop_oneof![
            2 => (any::<u16>(), 1usize..=3).prop_map(|(at, count)| TextEdit::RemoveTokens { at, count }),
            2 => (any::<u16>(), 1usize..=3, 0u8..3, prop::bool::weighted(0.25)).prop_map(|(at, count, sep, after_final_newline)| TextEdit::InsertTokens { at, count, sep, after_final_newline }),
            2 => (any::<u16>(), prop_oneof![Just(-2i8), Just(-1), Just(1), Just(2)]).prop_map(|(axis, delta)| TextEdit::ChangeLength { axis, delta }),
            1 => (any::<u16>(), 2usize..=4).prop_map(|(at, len)| TextEdit::AddAxis { at, len }),
            1 => any::<u16>().prop_map(|at| TextEdit::DropAxis { at }),
        ],
    )
        .prop_map(|(shape, seed, precision, edit)| TextCase { shape, seed, precision, edit })
}

/// Applies the edit; returns None when the edit would keep the product equal to the token count
/// (a legitimately different spectrum, not a damaged one) or is not applicable.
pub fn damaged_text(case: &TextCase) -> Option<(String, String)> {
    let n = elements(&case.shape);
    let p = case.precision;
    let mut tokens: Vec<String> = (0..n as u64).map(|i| format!("{:.p$}", (crate::engine::splitmix64(case.seed ^ i) % 100_000) as f64 / 16.0)).collect();
    let mut shape = case.shape.clone();
    let what;
    match &case.edit {
        TextEdit::RemoveTokens { at, count } => {
            if *count > tokens.len() {
                return None;
            }
            let i = pick_idx(*at, tokens.len() - count + 1);
            tokens.drain(i..i + count);
            what = format!("{count} value token(s) removed at {i}");
        }
        TextEdit::InsertTokens { at, count, sep, after_final_newline } => {
            let sep_str = [" ", "\t", "\n"][*sep as usize % 3];
            let extra: Vec<String> = (0..*count).map(|k| format!("{:.p$}", k as f64 + 0.5)).collect();
            let header = shape.iter().map(|s| s.to_string()).collect::<Vec<_>>().join("/");
            if *after_final_newline {
                let text = format!("#SHAPE=<{header}>\n{}\n{}\n", tokens.join(" "), extra.join(sep_str));
                return Some((text, format!("{count} value token(s) appended after the final newline")));
            }
            let i = pick_idx(*at, tokens.len() + 1);
            // tokens before i, the inserted ones joined by `sep`, tokens after i
            let mut text = format!("#SHAPE=<{header}>\n");
            text.push_str(&tokens[..i].join(" "));
            if i > 0 {
                text.push_str(sep_str);
            }
            text.push_str(&extra.join(sep_str));
            if i < tokens.len() {
                text.push_str(sep_str);
                text.push_str(&tokens[i..].join(" "));
            }
            text.push('\n');
            return Some((text, format!("{count} value token(s) inserted at {i} separated by {sep_str:?}")));
        }
        TextEdit::ChangeLength { axis, delta } => {
            let a = pick_idx(*axis, shape.len());
            let new = shape[a] as i64 + *delta as i64;
            if new < 1 {
                return None;
            }
            shape[a] = new as usize;
            what = format!("declared length of axis {a} changed by {delta}");
        }
        TextEdit::AddAxis { at, len } => {
            let i = pick_idx(*at, shape.len() + 1);
            shape.insert(i, *len);
            what = format!("axis of length {len} added to the declared shape at {i}");
        }
        TextEdit::DropAxis { at } => {
            if shape.len() < 2 {
                return None;
            }
            let i = pick_idx(*at, shape.len());
            if shape[i] == 1 {
                return None;
            }
            shape.remove(i);
            what = format!("axis {i} dropped from the declared shape");
        }
    }
    if elements(&shape) == tokens.len() {
        return None;
    }
    let header = shape.iter().map(|s| s.to_string()).collect::<Vec<_>>().join("/");
    Some((format!("#SHAPE=<{header}>\n{}\n", tokens.join(" ")), what))
}

fn lib_read_path(path: &std::path::Path) -> Result<Result<(Vec<usize>, usize), String>, Failure> {
    let p = path.to_path_buf();
    guard(move || {
        read::Builder::default()
            .set_input(SfsInput::new_unchecked(Some(p)))
            .read()
            .map(|s| (s.shape().as_ref().to_vec(), s.elements()))
            .map_err(|e| e.to_string())
    })
    .map_err(|p| Failure::new(format!("read::Builder::read: {p}")))
}

fn eval_text(ctx: &Ctx, case: &TextCase) -> Verdict {
    let Some((text, what)) = damaged_text(case) else {
        return Ok(Pass::new().label("edit-not-applicable"));
    };
    let dir = ctx.worker_dir(crate::engine::worker_id());
    let path = dir.join("damaged.sfs");
    std::fs::write(&path, &text).expect("write");
    if let Ok((shape, n)) = lib_read_path(&path)? {
        fail!("text file with {what} accepted as shape {shape:?} with {n} values; file: {:?}", cli::cut(&text, 300));
    }
    // control: the undamaged file is accepted
    let p = case.precision;
    let n = elements(&case.shape);
    let tokens: Vec<String> = (0..n as u64).map(|i| format!("{:.p$}", (crate::engine::splitmix64(case.seed ^ i) % 100_000) as f64 / 16.0)).collect();
    let header = case.shape.iter().map(|s| s.to_string()).collect::<Vec<_>>().join("/");
    std::fs::write(&path, format!("#SHAPE=<{header}>\n{}\n", tokens.join(" "))).expect("write");
    match lib_read_path(&path)? {
        Ok((shape, _)) => ensure!(shape == case.shape, "control file read with shape {shape:?}"),
        Err(e) => fail!("control (undamaged) text file rejected: {e}"),
    }
    Ok(Pass::new().nontrivial(true).label(match case.edit {
        TextEdit::RemoveTokens { .. } => "remove-tokens",
        TextEdit::InsertTokens { .. } => "insert-tokens",
        TextEdit::ChangeLength { .. } => "change-length",
        TextEdit::AddAxis { .. } => "add-axis",
        TextEdit::DropAxis { .. } => "drop-axis",
    }))
}

// ---------------------------------------------------------------------------------------------
// CLI

#[derive(Clone, Debug, Serialize, Deserialize)]
pub enum CliDamage {
    NpyTruncate { file: NpyCase, cut: u16, delicate: bool },
    /// `fill`: 0 = copy of the last value, 1 = zeros, 2 = line feeds, 3 = spaces, 4 = CR LF pairs, 5 = tabs
    NpyExtend { file: NpyCase, extra: usize, #[serde(default)] fill: u8 },
    Text(TextCase),
}

#[derive(Clone, Debug, Serialize, Deserialize)]
pub struct CliCase {
    pub damage: CliDamage,
    pub stdin: bool,
}

fn cli_strategy() -> impl Strategy<Value = CliCase> {
    (
        prop_oneof![
            3 => (npy_strategy(), any::<u16>(), any::<bool>()).prop_map(|(file, cut, delicate)| CliDamage::NpyTruncate { file, cut, delicate }),
            3 => (npy_strategy(), 1usize..=16, 0u8..7).prop_map(|(file, extra, fill)| CliDamage::NpyExtend { file, extra, fill }),
            3 => text_strategy().prop_map(CliDamage::Text),
        ],
        any::<bool>(),
    )
        .prop_map(|(damage, stdin)| CliCase { damage, stdin })
}

fn eval_cli(ctx: &Ctx, case: &CliCase) -> Verdict {
    let dir = ctx.worker_dir(crate::engine::worker_id());
    // for extensions: where the valid file ends (the damaged bytes may arrive in two writes)
    let mut split_at: Option<usize> = None;
    let (bytes, what, label) = match &case.damage {
        CliDamage::NpyTruncate { file, cut, delicate } => {
            let (bytes, item) = npy_file(file)?;
            let start = npy::parse_header(&bytes).map_err(Failure::new)?.data_offset;
            let cut = if *delicate {
                // a value boundary (including "header only")
                let values = (bytes.len() - start) / item;
                start + pick_idx(*cut, values) * item
            } else {
                pick_idx(*cut, bytes.len())
            };
            (bytes[..cut].to_vec(), format!("npy prefix of {cut}/{} bytes ({:?}, shape {:?})", bytes.len(), file.source, file.shape), "npy-truncated")
        }
        CliDamage::NpyExtend { file, extra, fill } => {
            let (mut bytes, item) = npy_file(file)?;
            let last: Vec<u8> = bytes[bytes.len() - item..].to_vec();
            let pattern: Vec<u8> = match fill {
                0 => last,
                1 => vec![0],
                2 => vec![b'\n'],
                3 => vec![b' '],
                4 => vec![b'\r', b'\n'],
                5 => vec![b'\t'],
                // the beginning of the file itself (npy magic and header)
                _ => bytes.clone(),
            };
            split_at = Some(bytes.len());
            bytes.extend(pattern.iter().cycle().take(*extra));
            (bytes, format!("npy extended by {extra} bytes of fill kind {fill} ({:?}, shape {:?})", file.source, file.shape), "npy-extended")
        }
        CliDamage::Text(t) => match damaged_text(t) {
            Some((text, what)) => (text.into_bytes(), format!("text with {what}"), "text-edited"),
            None => return Ok(Pass::new().label("edit-not-applicable")),
        },
    };
    // the file name is part of the case: neutral, matching the content's format, or contradicting it
    let name = ["damaged.bin", "damaged.npy", "damaged.sfs", "damaged.txt", "damaged"][(bytes.len() + bytes.iter().take(64).map(|b| *b as usize).sum::<usize>()) % 5];
    let path = dir.join(name);
    std::fs::write(&path, &bytes).expect("write");
    for cmd in [
        vec!["view"],
        vec!["fold"],
        vec!["stat", "-s", "sum"],
        vec!["view", "-O", "npy"],
        vec!["view", "-O", "text"],
        vec!["fold", "-O", "npy"],
        vec!["view", "-O", "npy", "-o", "out.npy"],
        vec!["fold", "-o", "out.sfs"],
        vec!["stat", "-s", "sum,s", "-H"],
    ] {
        let mut args: Vec<String> = cmd.iter().map(|s| s.to_string()).collect();
        let _ = std::fs::remove_file(dir.join("out.npy"));
        let _ = std::fs::remove_file(dir.join("out.sfs"));
        let run = if case.stdin {
            match split_at {
                // the valid part in one write, the surplus after the pipe has drained: what arrives
                // first must not be taken for the whole input
                Some(first) if (bytes.len() + cmd.len()) % 2 == 0 => {
                    let argv: Vec<&str> = args.iter().map(|a| a.as_str()).collect();
                    crate::props::c18::run_with_paced_stdin(ctx, &argv, &bytes, first, &dir)?
                }
                _ => cli::sfs(ctx, &args, Input::File(&path), &dir),
            }
        } else {
            args.push(name.into());
            cli::sfs(ctx, &args, Input::Null, &dir)
        };
        for o in ["out.npy", "out.sfs"] {
            if let Ok(written) = std::fs::read(dir.join(o)) {
                ensure!(
                    !written.windows(6).any(|w| w == npy::MAGIC || w == b"#SHAPE"),
                    "`sfs {}` on {what} (named {name}) wrote a spectrum of {} bytes to {o}: {}",
                    cmd.join(" "),
                    written.len(),
                    run.describe()
                );
            }
        }
        let out = run.stdout_str();
        let has_row = out.lines().any(|l| l.split(',').all(|t| t.trim().parse::<f64>().is_ok()) && !l.trim().is_empty());
        ensure!(
            matches!(run.code, Some(c) if c != 0) || run.signal.is_some(),
            "`sfs {}` on {what} exited with success: {}",
            cmd.join(" "),
            run.describe()
        );
        ensure!(!run.stderr.is_empty(), "`sfs {}` on {what}: no diagnostic on stderr: {}", cmd.join(" "), run.describe());
        ensure!(
            !out.contains("#SHAPE") && !run.stdout.windows(6).any(|w| w == npy::MAGIC) && !has_row,
            "`sfs {}` on {what} wrote a spectrum or statistics row: {}",
            cmd.join(" "),
            run.describe()
        );
    }
    Ok(Pass::new().nontrivial(true).label(label).label(if case.stdin { "stdin" } else { "path" }).label(format!("name={name}")))
}

pub fn check(ctx: &Ctx) -> Check {
    let parts: Vec<Box<dyn Part>> = vec![
        Box::new(RandomPart {
            name: "npy-faults",
            rule: "valid npy files from sfs's writer and from the numpy-layout writer (all 10 dtypes, both byte orders, versions 1/2/3, 1..5 axes, >=1 element; one file in seven has a data section that is a whole multiple of, or just beside, 512 B .. 128 KiB): EVERY truncation offset 0..len-1 (files above 2000 bytes: header, first and last 80 data bytes, 20 bytes either side of every multiple of 512), every extension by 1..16 bytes (zeros / random / copy of the last value / line feeds / spaces / the beginning of a second npy file), the file followed by a copy of itself or of its header, and value counts off by whole values are fed to Array::read_npy, which must return Err (no Ok, no panic); the undamaged file must be accepted; non-trivial = the sweep contains cuts at a value boundary, in the padding or in the header-length field (always true); distinct by file",
            cases: ctx.tier.pick(1000, 50_000),
            strategy: Box::new(|| npy_strategy().boxed()),
            eval: Box::new(eval_npy),
        }),
        Box::new(RandomPart {
            name: "text-faults",
            rule: "text files with 1..3 value tokens removed, or inserted anywhere separated by a space, a tab or a line feed, or appended after the final newline, or with the declared shape edited so that its product changes (length +-1/2, axis added, axis dropped); edits that keep the product are not generated; read::Builder (auto-detect) must return Err, the undamaged control must be accepted",
            cases: ctx.tier.pick(6000, 300_000),
            strategy: Box::new(|| text_strategy().boxed()),
            eval: Box::new(eval_text),
        }),
        Box::new(RandomPart {
            name: "cli-faults",
            rule: "a sample of the damaged npy/text files through `sfs view`, `fold`, `stat -s sum` (+ `view -O npy|text`, `fold -O npy`, `view -O npy -o FILE`, `fold -o FILE`, `stat -H`), on stdin also in two writes split exactly where the valid file ends; by path (file named .bin, .npy, .sfs, .txt or without extension, whatever its content) and on stdin: exit status non-zero, diagnostic on stderr, stdout and the -o file without #SHAPE, npy magic or a numeric row",
            cases: ctx.tier.pick(500, 15_000),
            strategy: Box::new(|| cli_strategy().boxed()),
            eval: Box::new(eval_cli),
        }),
    ];
    let mut parts = parts;
    parts.push(Box::new(crate::fuzzrun::FuzzPart {
        name: "libfuzzer-fz_npy",
        target: "fz_npy",
        rule: "coverage-guided (libFuzzer + ASan) mutation of valid npy files with the independent parser as in-target oracle: whatever Array::read_npy accepts must have exactly prod(shape) values and a payload of exactly that many elements (no short tail, no surplus bytes)",
        runs: ctx.tier.pick(0, 2_000_000),
        max_len: 2048,
        seeds: Box::new(|_| crate::props::c15::npy_fuzz_seeds()),
    }));
    Check {
        parts,
        level: "fault_enumeration",
        assumptions: vec!["damage model: strict prefixes, short extensions, token insertion/removal, declared-shape edits that change the product", "a panic counts as a violation at library level (the property promises an error)"],
        post: None,
    }
}
