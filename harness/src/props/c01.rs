//! C01 — create counts every complete site once at its per-population ALT index.

use proptest::prelude::*;
use serde::{Deserialize, Serialize};

use crate::{
    cli,
    engine::{Ctx, Part, Pass, RandomPart, Verdict},
    gen::callset::{callset_strategy, force_record_classes, make_selected_diploid, map_draw_strategy, resolve_map, CallSet, GenParams, MapSpec},
    model::create::{create, RecordFate},
    props::{
        common::{container_strategy, run_create, Container, CreateOpts, Transport},
        Check,
    },
};

#[derive(Clone, Debug, Serialize, Deserialize)]
pub struct Case {
    pub cs: CallSet,
    /// None = no -s/-S (all samples, one population)
    pub map: Option<MapSpec>,
    pub container: Container,
    /// number of -v flags (0..3); 4 = -q, 5 = -qq
    #[serde(default)]
    pub verbosity: u8,
    /// --threads value (None = option not given)
    #[serde(default)]
    pub threads: Option<usize>,
}

pub fn strategy(params: GenParams) -> impl Strategy<Value = Case> {
    let max_samples = params.max_samples;
    (callset_strategy(params), map_draw_strategy(max_samples), container_strategy(), prop::bool::weighted(0.08), prop_oneof![6 => Just(0u8), 1 => Just(1u8), 2 => Just(2u8), 1 => Just(3u8), 1 => Just(4u8), 1 => Just(5u8)], prop_oneof![3 => Just(None), 2 => Just(Some(1usize)), 1 => Just(Some(2usize)), 1 => Just(Some(4usize)), 1 => Just(Some(7usize))]).prop_map(|(mut cs, draw, container, implicit, verbosity, threads)| {
        let n = cs.samples.len();
        let map = if implicit { MapSpec::implicit_all(n) } else { resolve_map(&draw, n) };
        let selected: Vec<bool> = map.assignment(n).iter().map(|a| a.is_some()).collect();
        force_record_classes(&mut cs, &selected);
        make_selected_diploid(&mut cs, &selected);
        Case {
            cs,
            map: if implicit { None } else { Some(map) },
            container,
            verbosity,
            threads,
        }
    })
}

pub fn eval(ctx: &Ctx, case: &Case) -> Verdict {
    let dir = ctx.worker_dir(crate::engine::worker_id());
    let n = case.cs.samples.len();
    let map = case.map.clone().unwrap_or_else(|| MapSpec::implicit_all(n));
    let want = create(&case.cs, &map, None);
    ensure!(want.first_error.is_none(), "generator bug: ploidy error in a selected sample");
    let opts = CreateOpts {
        map: case.map.clone(),
        verbose: if case.verbosity <= 3 { case.verbosity } else { 0 },
        quiet: if case.verbosity >= 4 { case.verbosity - 3 } else { 0 },
        threads: case.threads,
        ..Default::default()
    };
    let (run, argv) = run_create(ctx, &dir, "c01", &case.cs, &case.container, &opts, Transport::Path);
    let what = format!("`sfs {}` ({})", argv.join(" "), case.container.label());
    let got = cli::expect_spectrum(&run, &what)?;
    ensure!(got.shape == want.spectrum.shape, "{what}: output shape {:?}, expected (2n_j+1) = {:?} for population sizes {:?}", got.shape, want.spectrum.shape, map.pop_sizes());
    for (i, t) in got.tokens.iter().enumerate() {
        ensure!(!t.is_empty() && t.bytes().all(|b| b.is_ascii_digit()), "{what}: value {i} printed as {t:?}, not an exact integer");
    }
    for (i, (g, w)) in got.values.iter().zip(&want.spectrum.values).enumerate() {
        if g != w {
            let idx = crate::gen::shapes::odometer(&got.shape)[i].clone();
            fail!(
                "{what}: entry {idx:?} = {g}, but {w} records have every selected sample complete with these per-population ALT counts (model counted {} records, skipped {})",
                want.counted,
                want.skipped
            );
        }
    }
    let sizes = map.pop_sizes();
    let assignment = map.assignment(n);
    let unequal = sizes.len() >= 2 && sizes.iter().any(|s| *s != sizes[0]);
    let strict_subset = map.entries.len() < n;
    let only_unselected_incomplete = case.cs.records.iter().zip(&want.fates).any(|(r, f)| *f == RecordFate::Counted && (0..n).any(|i| assignment[i].is_none() && !r.gt_of(i).is_call()));
    let nontrivial = want.counted >= 1 && (unequal || strict_subset || want.skipped >= 1 || only_unselected_incomplete);
    let mut pass = Pass::new().nontrivial(nontrivial);
    pass.add_label(format!("populations={}", sizes.len()));
    pass.add_label(case.container.label());
    if unequal {
        pass.add_label("unequal-population-sizes");
    }
    if strict_subset {
        pass.add_label("strict-subset");
    }
    if want.skipped >= 1 {
        pass.add_label("has-skipped-record");
    }
    if only_unselected_incomplete {
        pass.add_label("counted-record-with-incomplete-unselected-sample");
    }
    if case.map.is_none() {
        pass.add_label("no-sample-option");
    } else if map.as_file {
        pass.add_label("samples-file");
    }
    if case.cs.records.is_empty() {
        pass.add_label("no-records");
    }
    pass.add_label(format!("verbosity={}", ["default", "-v", "-vv", "-vvv", "-q", "-qq"][case.verbosity.min(5) as usize]));
    if matches!(case.container, Container::Bcf(_) | Container::BcfRaw) && crate::gen::bcf::wide_dictionary(&case.cs) {
        pass.add_label("bcf-with-GT-key-at-dictionary-index>127");
    }
    pass.add_label(match case.threads {
        None => "threads-default".to_string(),
        Some(t) => format!("threads={t}"),
    });
    if case.cs.records.iter().any(|r| !r.has_gt) {
        pass.add_label("record-without-GT-key");
    }
    if case.cs.records.iter().any(|r| r.ref_pad >= 100) {
        pass.add_label("long-REF-allele(>=100 bases)");
    }
    if case.cs.records.iter().any(|r| r.gts.iter().any(|g| g.max_allele() >= 10)) {
        pass.add_label("two-digit-allele-index");
    }
    Ok(pass)
}

#[derive(Clone, Debug, Serialize, Deserialize)]
pub struct ManyCase {
    pub records: usize,
    pub bcf: bool,
}

/// Counts beyond u8 / u16 / small-integer accumulators: one pattern of genotypes repeated N times.
fn eval_many(ctx: &Ctx, case: &ManyCase) -> Verdict {
    use crate::gen::callset::{Gt, Record};
    let dir = ctx.worker_dir(crate::engine::worker_id());
    let template = crate::props::c10::fresh_record(3);
    let records: Vec<Record> = (0..case.records as u64)
        .map(|i| Record {
            pos: i + 1,
            gts: vec![Gt::diploid(Some(0), Some(1), false), Gt::diploid(Some((i % 3 == 0) as u8), Some(1), i % 2 == 0), Gt::diploid(Some(0), Some(0), false)],
            ..template.clone()
        })
        .collect();
    let cs = CallSet {
        contigs: vec!["ctgMany7".into()],
        samples: vec!["a".into(), "b".into(), "c".into()],
        records,
    };
    let map = MapSpec {
        entries: vec![(1, Some(0)), (0, Some(1))],
        labels: vec!["P".into(), "Q".into()],
        as_file: false,
    };
    let want = create(&cs, &map, None);
    let container = if case.bcf { Container::Bcf(crate::gen::bgzf::Layout::plain()) } else { Container::Vcf };
    let (run, argv) = run_create(ctx, &dir, "c01m", &cs, &container, &CreateOpts { map: Some(map), ..Default::default() }, Transport::Path);
    let got = cli::expect_spectrum(&run, &format!("`sfs {}` on {} records", argv.join(" "), case.records))?;
    ensure!(got.values == want.spectrum.values, "{} identical-pattern records: printed {:?}, expected {:?}", case.records, got.tokens, want.spectrum.values);
    for t in &got.tokens {
        ensure!(t.bytes().all(|b| b.is_ascii_digit()), "count printed as {t:?}, not an exact integer");
    }
    Ok(Pass::new().nontrivial(true).label(format!("records={}", case.records)))
}

#[derive(Clone, Debug, Serialize, Deserialize)]
pub struct CellsCase {
    pub sizes: Vec<usize>,
    pub unlisted: usize,
    pub bcf: bool,
    pub seed: u64,
}

/// Four populations large enough that the spectrum has thousands of cells.
fn eval_cells(ctx: &Ctx, case: &CellsCase) -> Verdict {
    use crate::gen::callset::{Gt, Record};
    let dir = ctx.worker_dir(crate::engine::worker_id());
    let listed: usize = case.sizes.iter().sum();
    let n = listed + case.unlisted;
    let template = crate::props::c10::fresh_record(n);
    let records: Vec<Record> = (0..160u64)
        .map(|r| Record {
            pos: 10 + 3 * r,
            gts: (0..n as u64)
                .map(|i| {
                    let h = crate::engine::splitmix64(case.seed ^ (r << 20) ^ i);
                    // allele frequency varies by record so that the counts spread over the cells
                    let p = (r % 16) + 1;
                    let a = ((h % 17) < p) as u8;
                    let b = (((h >> 8) % 17) < p) as u8;
                    // one genotype in 128 is half-missing (one in 4096 in cohorts of more than 100 samples)
                    if h >> 40 & (if n > 100 { 4095 } else { 127 }) == 0 {
                        Gt::diploid(None, Some(b), false)
                    } else {
                        Gt::diploid(Some(a), Some(b), h >> 30 & 1 == 1)
                    }
                })
                .collect(),
            ..template.clone()
        })
        .collect();
    let cs = CallSet {
        contigs: vec!["ctgCells3".into()],
        samples: (0..n).map(|i| format!("c{i}")).collect(),
        records,
    };
    // populations interleaved over the sample columns
    let mut entries = Vec::new();
    let mut left = case.sizes.clone();
    let mut i = 0usize;
    while left.iter().any(|l| *l > 0) {
        for (j, l) in left.iter_mut().enumerate() {
            if *l > 0 {
                entries.push((i, Some(j)));
                *l -= 1;
                i += 1;
            }
        }
    }
    let map = MapSpec {
        entries,
        labels: vec!["w".into(), "x".into(), "y".into(), "z".into()],
        as_file: case.bcf,
    };
    let want = create(&cs, &map, None);
    let container = if case.bcf { Container::Bcf(crate::gen::bgzf::Layout::plain()) } else { Container::Vcf };
    let (run, argv) = run_create(ctx, &dir, "c01c", &cs, &container, &CreateOpts { map: Some(map), ..Default::default() }, Transport::Path);
    let what = format!("`sfs {}` (populations of {:?} samples)", cli::cut(&argv.join(" "), 120), case.sizes);
    let got = cli::expect_spectrum(&run, &what)?;
    ensure!(got.shape == want.spectrum.shape, "{what}: shape {:?}, expected {:?}", got.shape, want.spectrum.shape);
    for (i, (g, w)) in got.values.iter().zip(&want.spectrum.values).enumerate() {
        ensure!(g == w && got.tokens[i].bytes().all(|b| b.is_ascii_digit()), "{what}: flat cell {i} printed {:?}, the model counts {w}", got.tokens[i]);
    }
    let max_alt = (0..got.shape.len()).map(|j| {
        let stride: usize = got.shape[j + 1..].iter().product();
        got.values.iter().enumerate().filter(|(_, v)| **v > 0.0).map(|(i, _)| (i / stride) % got.shape[j]).max().unwrap_or(0)
    }).max().unwrap_or(0);
    let mut pass = Pass::new().nontrivial(want.counted >= 50 && want.skipped >= 1).label(format!("cells={}", got.values.len()));
    pass.add_label(if max_alt >= 256 { "a-population-with->=256-ALT-alleles-at-a-record" } else if max_alt >= 128 { "a-population-with-128..255-ALT-alleles-at-a-record" } else { "ALT-counts<128" });
    Ok(pass)
}

pub fn check(ctx: &Ctx) -> Check {
    let parts: Vec<Box<dyn Part>> = vec![Box::new(RandomPart {
        name: "create-counts",
        rule: "generated call sets (1..3 contigs named like identifiers, bare numbers, chrUn_.., accession.version, HLA alleles with `*` and `:`, or exactly X / Y / MT / chrX / chrM / W / Z and the like, 1..12 samples with ASCII or non-ASCII names, 0..40 records at increasing or repeated positions, header fileformat VCFv4.1..4.4; phased/unphased, missing, multiallelic, monomorphic, symbolic ALT, up to 11 ALT alleles with two-digit allele indices, REF alleles of up to 9 000 bases (lines longer than the 8 KiB read buffer; rlen > 1 in BCF), extra INFO/FORMAT fields, records without a GT key; non-diploid genotypes only in unselected samples; record classes all-complete / all-missing / one-missing / only-unselected-incomplete forced) x sample->population maps (1..4 populations, any subset, inline or file, or no option at all) x container {vcf, bgzf vcf, bgzf bcf, raw bcf} x log verbosity {default, -v, -vv, -vvv, -q, -qq} x --threads {not given, 1, 2, 4, 7}: exit 0, shape (2n_j+1), every cell equal to the reference model's count and printed as a bare integer; non-trivial = >=1 record counted and (unequal population sizes | strict subset | >=1 skipped record | a counted record whose only incomplete sample is unselected); distinct by (call set, map, container)",
        cases: ctx.tier.pick(8000, 300_000),
        strategy: Box::new(|| strategy(GenParams::default()).boxed()),
        eval: Box::new(eval),
    })];
    let mut parts = parts;
    parts.push(Box::new(crate::engine::EnumPart {
        name: "many-records",
        rule: "one genotype pattern repeated 300 / 70 000 (thorough: 1 100 000) times in VCF and BGZF-BCF: the counts pass 255 and 65 535 (and 2^20) and must be exact and printed as integers",
        exhaustive: false,
        cases: Box::new(|ctx: &Ctx| {
            let mut v = vec![ManyCase { records: 300, bcf: false }, ManyCase { records: 70_000, bcf: false }, ManyCase { records: 70_000, bcf: true }];
            if ctx.tier == crate::engine::Tier::Thorough {
                v.push(ManyCase { records: 1_100_000, bcf: true });
            }
            v
        }),
        eval: Box::new(eval_many),
    }));
    parts.push(Box::new(crate::engine::EnumPart {
        name: "many-cells",
        rule: "call sets of 15..19 samples in four populations (4/4/4/3, 5/4/3/3, 4/4/4/4 listed, 0..2 unlisted): output spectra of 5 103 .. 6 561 cells (a text line beyond 8 KiB / 4096 values), every cell against the model, in VCF and BGZF-BCF",
        exhaustive: false,
        cases: Box::new(|_| {
            let mut v = Vec::new();
            for (k, sizes) in [[4usize, 4, 4, 3], [5, 4, 3, 3], [4, 4, 4, 4]].iter().enumerate() {
                for bcf in [false, true] {
                    v.push(CellsCase { sizes: sizes.to_vec(), unlisted: k % 3, bcf, seed: 0xCE11 + k as u64 });
                }
            }
            v
        }),
        eval: Box::new(eval_cells),
    }));
    parts.push(Box::new(crate::engine::EnumPart {
        name: "large-populations",
        rule: "populations of 100..330 samples (one, or two of unequal size, plus unlisted samples), 160 records whose ALT frequency runs from 1/17 to 16/17: per-population ALT counts and called-sample counts pass 127, 255 and 256 (one-byte tallies), every cell against the model, in VCF and BGZF-BCF",
        exhaustive: false,
        cases: Box::new(|_| {
            let mut v = Vec::new();
            for (k, sizes) in [vec![200usize], vec![150, 20], vec![160, 140], vec![7, 330], vec![129, 3, 2]].into_iter().enumerate() {
                v.push(CellsCase { sizes, unlisted: k % 3, bcf: k % 2 == 1, seed: 0xB16 + k as u64 });
            }
            v
        }),
        eval: Box::new(eval_cells),
    }));
    parts.push(Box::new(RandomPart {
        name: "decoded-bytes-vs-model",
        rule: "the body of the libFuzzer target fz_callset on random byte strings: bytes -> (call set of <=48 records x <=6 samples from a 28-genotype alphabet incl. missing, multiallelic, two-digit and non-diploid forms; sample map; optional projection target; container in {VCF, raw BCF, BGZF VCF, BGZF BCF}) -> library genotype reader -> site reader loop; every record's fate (counted / skipped / ploidy error) and the final spectrum equal the reference model; non-trivial = >=1 record counted and >=1 skipped or failed; distinct by bytes",
        cases: ctx.tier.pick(40_000, 1_000_000),
        strategy: Box::new(|| prop::collection::vec(any::<u8>(), 8..400).boxed()),
        eval: Box::new(|_ctx: &Ctx, bytes: &Vec<u8>| {
            let (cs, map, project, container) = crate::fuzz::decode_callset(bytes);
            let want = create(&cs, &map, project.as_deref());
            match crate::engine::guard(|| crate::fuzz::fz_callset(bytes)) {
                Ok(Ok(())) => {}
                Ok(Err(e)) => fail!("{e}"),
                Err(p) => fail!("fz_callset body: {p}"),
            }
            let mut pass = Pass::new().nontrivial(want.counted >= 1 && (want.skipped >= 1 || want.first_error.is_some()));
            pass.add_label(format!("container={}", ["vcf", "bcf", "vcf.gz", "bcf.gz"][container as usize % 4]));
            pass.add_label(if project.is_some() { "projected" } else { "unprojected" });
            if want.first_error.is_some() {
                pass.add_label("ploidy-error-in-selected-sample");
            }
            Ok(pass)
        }),
    }));
    parts.push(Box::new(crate::fuzzrun::FuzzPart {
        name: "libfuzzer-fz_callset",
        target: "fz_callset",
        rule: "coverage-guided (libFuzzer + ASan) search over the same decoder: structured call sets rendered in four containers, library create loop against the reference model (fates, ploidy errors, exact or 1e-9 spectrum)",
        runs: ctx.tier.pick(0, 1_000_000),
        max_len: 512,
        seeds: Box::new(|_| {
            (0..24u64)
                .map(|i| {
                    let mut x = crate::engine::splitmix64(0xC01 + i);
                    (0..(40 + 15 * i as usize))
                        .map(|_| {
                            x = crate::engine::splitmix64(x);
                            (x >> 32) as u8
                        })
                        .collect()
                })
                .collect()
        }),
    }));
    Check {
        parts,
        level: "exploration",
        assumptions: vec!["reference model of create written from the property statements on the structured call set", "the harness's VCF/BCF/BGZF renderers (self-checked against noodles and flate2 in setup)"],
        post: None,
    }
}
