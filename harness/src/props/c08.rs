//! C08 — genotype to allele-count classification is total and exact.

use proptest::prelude::*;
use serde::{Deserialize, Serialize};

use crate::{
    cli,
    engine::{Ctx, EnumPart, Part, Pass, RandomPart, Verdict},
    gen::callset::{callset_strategy, map_draw_strategy, resolve_map, CallSet, GenParams, Gt, GtClass, MapSpec, Record},
    model::create::create,
    props::{
        common::{container_strategy, run_create, Container, CreateOpts, Transport},
        Check,
    },
};

const UNIT_TEST_STRINGS: [&str; 11] = ["0/0", "0/1", "1/1", "0|1", "1|0", "./.", "./0", "1|.", "1/2", "0", "0/0/0"];

#[derive(Clone, Debug, Serialize, Deserialize)]
pub struct GtCase {
    pub gt: String,
    pub bcf: bool,
    pub selected: bool,
    /// number of alleles in the record's ALT column (None = 3, as in the first version of this
    /// check); the classification of a genotype depends on its allele indices alone
    #[serde(default)]
    pub n_alt: Option<u8>,
}

pub fn all_gt_strings(alleles: &[Option<u8>], max_ploidy: usize) -> Vec<String> {
    let mut out = Vec::new();
    fn rec(cur: &mut Vec<(Option<u8>, bool)>, alleles: &[Option<u8>], ploidy: usize, out: &mut Vec<String>) {
        if cur.len() == ploidy {
            let gt = Gt {
                alleles: cur.iter().map(|c| c.0.map(u64::from)).collect(),
                phased: cur.iter().skip(1).map(|c| c.1).collect(),
            };
            out.push(gt.render());
            return;
        }
        for a in alleles {
            if cur.is_empty() {
                cur.push((*a, false));
                rec(cur, alleles, ploidy, out);
                cur.pop();
            } else {
                for p in [false, true] {
                    cur.push((*a, p));
                    rec(cur, alleles, ploidy, out);
                    cur.pop();
                }
            }
        }
    }
    for ploidy in 1..=max_ploidy {
        rec(&mut Vec::new(), alleles, ploidy, &mut out);
    }
    out
}

const CONTIG: &str = "ctgQz81";
const POS: u64 = 48213;

fn one_record_callset(gt: &Gt, n_alt: u8) -> CallSet {
    CallSet {
        contigs: vec!["ctgOther5".into(), CONTIG.into()],
        samples: vec!["probe".into(), "mate".into()],
        records: vec![Record {
            contig: 1,
            pos: POS,
            n_alt,
            symbolic: false,
            id: false,
            qual: None,
            filter: 0,
            info: 0,
            fmt_dp: false,
            fmt_gq: false,
            ref_pad: 0,
            has_gt: true,
            force: 0,
            gts: vec![gt.clone(), Gt::diploid(Some(0), Some(1), false)],
        }],
    }
}

fn names_site(stderr: &str) -> bool {
    // contig and position as tokens (not as substrings of longer identifiers / numbers)
    let tokens: Vec<&str> = stderr.split(|c: char| !(c.is_alphanumeric() || c == '_')).collect();
    tokens.contains(&CONTIG) && tokens.contains(&POS.to_string().as_str())
}

fn eval_gt(ctx: &Ctx, case: &GtCase) -> Verdict {
    let dir = ctx.worker_dir(crate::engine::worker_id());
    let gt = Gt::parse(&case.gt);
    let cs = one_record_callset(&gt, case.n_alt.unwrap_or(3));
    let container = if case.bcf { Container::BcfRaw } else { Container::Vcf };
    let entries = if case.selected { vec![(1, None), (0, None)] } else { vec![(1, None)] };
    let map = MapSpec {
        entries,
        labels: vec![],
        as_file: false,
    };
    let opts = CreateOpts {
        map: Some(map),
        verbose: 2,
        ..Default::default()
    };
    let (run, argv) = run_create(ctx, &dir, "c08", &cs, &container, &opts, Transport::Path);
    let what = format!("GT {:?} (ALT column with {} alleles) in the {} path, probe sample {} (`sfs {}`)", case.gt, case.n_alt.unwrap_or(3), if case.bcf { "BCF" } else { "VCF" }, if case.selected { "selected" } else { "NOT selected" }, argv.join(" "));
    let stderr = run.stderr_str();
    ensure!(!run.panicked(), "{what}: panic: {}", run.describe());

    let class = gt.class();
    let mut pass = Pass::new().nontrivial(!UNIT_TEST_STRINGS.contains(&case.gt.as_str()));
    pass.add_label(format!("{class:?}").split('(').next().unwrap().to_string());

    if !case.selected {
        // no effect at all: the output is that of the mate alone (0/1 -> index 1 of shape 3)
        ensure!(run.ok(), "{what}: an unselected sample made the run fail: {}", run.describe());
        ensure!(run.stdout_str() == "#SHAPE=<3>\n0 1 0\n", "{what}: an unselected sample influenced the output: {}", run.describe());
        ensure!(!stderr.contains("Skipping sample 'probe'"), "{what}: the unselected sample is reported as skipped: {}", run.describe());
        return Ok(pass);
    }

    match class {
        GtClass::Call(k) => {
            ensure!(run.ok(), "{what}: a complete biallelic diploid genotype must be counted: {}", run.describe());
            let mut want = vec!["0"; 5];
            want[k as usize + 1] = "1";
            let want = format!("#SHAPE=<5>\n{}\n", want.join(" "));
            ensure!(run.stdout_str() == want, "{what}: expected the site at index {} (k = {k} ALT alleles + 1 from the mate), got {}", k + 1, run.describe());
            ensure!(!stderr.contains("Skipp"), "{what}: a counted site is reported as skipped: {}", run.describe());
        }
        GtClass::Missing | GtClass::Multiallelic | GtClass::MissingAndMultiallelic => {
            ensure!(run.ok(), "{what}: a missing/multiallelic diploid genotype must be skipped, not fail the run: {}", run.describe());
            ensure!(run.stdout_str() == "#SHAPE=<5>\n0 0 0 0 0\n", "{what}: the site must contribute nothing: {}", run.describe());
            ensure!(stderr.contains("Skipped 1/1 sites"), "{what}: expected `Skipped 1/1 sites` on stderr: {}", run.describe());
            let reason_missing = stderr.contains("Skipping sample 'probe'") && stderr.contains("Reason: 'missing'");
            let reason_multi = stderr.contains("Skipping sample 'probe'") && stderr.contains("Reason: 'multiallelic'");
            match class {
                GtClass::Missing => ensure!(reason_missing, "{what}: trace reason should be 'missing': {}", run.describe()),
                GtClass::Multiallelic => ensure!(reason_multi, "{what}: trace reason should be 'multiallelic': {}", run.describe()),
                _ => ensure!(reason_missing || reason_multi, "{what}: no trace reason given: {}", run.describe()),
            }
        }
        GtClass::NotDiploid => {
            ensure!(run.clean_failure(), "{what}: a non-diploid genotype in a selected sample must fail the run with a diagnostic: {}", run.describe());
            ensure!(run.stdout.is_empty(), "{what}: a failing run must not write a spectrum: {}", run.describe());
            ensure!(names_site(&stderr), "{what}: the error must name contig {CONTIG} and position {POS}: {}", run.describe());
            // the same whatever else is asked for: a projection (also one that projects the
            // offending sample's population to zero individuals), strict mode, quiet logging
            let two_pops = MapSpec {
                entries: vec![(1, None), (0, Some(0))],
                labels: vec!["Zq".into()],
                as_file: false,
            };
            let one_pop = MapSpec { entries: vec![(1, None), (0, None)], labels: vec![], as_file: false };
            for (label, o) in [
                ("-p 1", CreateOpts { map: Some(one_pop.clone()), project: Some(crate::props::common::Projection { m: vec![2], individuals: true }), ..Default::default() }),
                ("--project-shape 2", CreateOpts { map: Some(one_pop.clone()), project: Some(crate::props::common::Projection { m: vec![1], individuals: false }), ..Default::default() }),
                ("-p 1,0 (the sample's own population projected away)", CreateOpts { map: Some(two_pops.clone()), project: Some(crate::props::common::Projection { m: vec![2, 0], individuals: true }), ..Default::default() }),
                ("--strict -q", CreateOpts { map: Some(one_pop.clone()), strict: true, quiet: 1, ..Default::default() }),
            ] {
                let (r, a) = run_create(ctx, &dir, "c08", &cs, &container, &o, Transport::Path);
                ensure!(
                    r.clean_failure() && r.stdout.is_empty() && names_site(&r.stderr_str()),
                    "{what}: with {label} (`sfs {}`) the non-diploid genotype must still fail the run, naming {CONTIG}:{POS}, without output: {}",
                    a.join(" "),
                    r.describe()
                );
            }
        }
    }
    Ok(pass)
}

// ---------------------------------------------------------------------------------------------
// embedded: genotypes of every class mid-stream, with accumulation

#[derive(Clone, Debug, Serialize, Deserialize)]
pub struct EmbeddedCase {
    pub cs: CallSet,
    pub map: MapSpec,
    pub container: Container,
}

fn embedded_strategy() -> impl Strategy<Value = EmbeddedCase> {
    let params = GenParams {
        max_records: 25,
        multi_weight: 25,
        missing_weight: 15,
        no_gt_per_256: 0,
        ..GenParams::default()
    };
    (callset_strategy(params), map_draw_strategy(12), container_strategy()).prop_map(|(mut cs, draw, container)| {
        let map = resolve_map(&draw, cs.samples.len());
        // keep non-diploid genotypes only in about one record out of sixteen, so that roughly half
        // of the cases run to completion
        let all = vec![true; cs.samples.len()];
        let mut keep = cs.clone();
        crate::gen::callset::make_selected_diploid(&mut cs, &all);
        for (r, k) in cs.records.iter_mut().zip(keep.records.drain(..)) {
            if k.force % 16 == 0 {
                *r = k;
            }
        }
        EmbeddedCase { cs, map, container }
    })
}

fn eval_embedded(ctx: &Ctx, case: &EmbeddedCase) -> Verdict {
    let dir = ctx.worker_dir(crate::engine::worker_id());
    let want = create(&case.cs, &case.map, None);
    let opts = CreateOpts {
        map: Some(case.map.clone()),
        ..Default::default()
    };
    let (run, argv) = run_create(ctx, &dir, "c08e", &case.cs, &case.container, &opts, Transport::Path);
    let what = format!("`sfs {}` ({})", argv.join(" "), case.container.label());
    let mut pass = Pass::new();
    match want.first_error {
        Some(ri) => {
            let rec = &case.cs.records[ri];
            ensure!(run.clean_failure() && run.stdout.is_empty(), "{what}: record {ri} has a non-diploid genotype in a selected sample; the run must fail without output: {}", run.describe());
            let stderr = run.stderr_str();
            ensure!(
                crate::props::common::names_site(&stderr, &case.cs.contigs[rec.contig], rec.pos),
                "{what}: the ploidy error must name {}:{} (record {ri}): {}",
                case.cs.contigs[rec.contig],
                rec.pos,
                run.describe()
            );
            pass.add_label("ploidy-error");
            pass.nontrivial = ri > 0;
        }
        None => {
            let got = cli::expect_spectrum(&run, &what)?;
            ensure!(got.shape == want.spectrum.shape && got.values == want.spectrum.values, "{what}: spectrum {:?} {:?}, reference model {:?} {:?}", got.shape, got.values, want.spectrum.shape, want.spectrum.values);
            let n = case.cs.samples.len();
            let assignment = case.map.assignment(n);
            let classes: std::collections::BTreeSet<String> = case
                .cs
                .records
                .iter()
                .flat_map(|r| (0..n).filter(|i| assignment[*i].is_some()).map(|i| format!("{:?}", r.gt_of(i).class()).split('(').next().unwrap().to_string()).collect::<Vec<_>>())
                .collect();
            pass.nontrivial = classes.len() >= 3 && want.counted >= 1;
            pass.add_label("no-error");
        }
    }
    Ok(pass)
}

pub fn check(ctx: &Ctx) -> Check {
    let thorough = ctx.tier == crate::engine::Tier::Thorough;
    let parts: Vec<Box<dyn Part>> = vec![
        Box::new(EnumPart {
            name: "gt-alphabet",
            rule: "EVERY GT string over alleles {., 0, 1, 2, 3, 10}, separators {/, |}, ploidy 1..3 (942 strings; plus allele indices 255..257, 511..513, 65536/7, 2^32(+1) in the VCF path; thorough adds ploidy 4 over {., 0, 1, 2} and every allele index up to 62) x {VCF text, BCF binary} x {probe sample selected, not selected}, plus every string of ploidy <= 2 in records whose ALT column has 0 or 1 alleles (fewer than the genotype refers to), one record with a distinctive contig and position, `sfs create -vv`: counted at index a+b / skipped with the stated reason / run fails naming contig and position (also under -p, --project-shape, a projection of the sample's own population to zero, --strict -q) / no effect when unselected; non-trivial = not one of the 11 strings the unit tests use; distinct by (string, path, selection)",
            exhaustive: true,
            cases: Box::new(move |_| {
                let mut strings = all_gt_strings(&[None, Some(0), Some(1), Some(2), Some(3), Some(10)], 3);
                if thorough {
                    strings.extend(all_gt_strings(&[None, Some(0), Some(1), Some(2)], 4).into_iter().filter(|s| Gt::parse(s).alleles.len() == 4));
                    for a in 4..=62u8 {
                        for s in [format!("{a}/0"), format!("0|{a}"), format!("{a}/{a}"), format!("1/{a}"), format!("./{a}"), format!("{a}")] {
                            strings.push(s);
                        }
                    }
                }
                let mut v = Vec::new();
                for gt in strings {
                    for bcf in [false, true] {
                        for selected in [true, false] {
                            v.push(GtCase { gt: gt.clone(), bcf, selected, n_alt: None });
                        }
                    }
                }
                // the same strings (ploidy <= 2) in records whose ALT column lists fewer alleles than
                // the genotype refers to (ALT '.', one ALT allele): the class follows the indices alone
                for gt in all_gt_strings(&[None, Some(0), Some(1), Some(2), Some(3)], 2) {
                    for n_alt in [0u8, 1] {
                        for bcf in [false, true] {
                            v.push(GtCase { gt: gt.clone(), bcf, selected: true, n_alt: Some(n_alt) });
                        }
                    }
                }
                // allele indices beyond one byte / two bytes / four bytes (VCF text only: BCF int8 vectors
                // end at 62); all are multiallelic
                for a in ["255", "256", "257", "511", "512", "513", "65536", "65537", "4294967296", "4294967297"] {
                    for gt in [format!("0/{a}"), format!("{a}|0"), format!("1/{a}"), format!("{a}/1"), format!("{a}/{a}"), format!("./{a}")] {
                        v.push(GtCase { gt: gt.clone(), bcf: false, selected: true, n_alt: None });
                        v.push(GtCase { gt, bcf: false, selected: false, n_alt: None });
                    }
                }
                v
            }),
            eval: Box::new(eval_gt),
        }),
        Box::new(RandomPart {
            name: "embedded",
            rule: "random call sets with genotypes of every class (complete, missing, multiallelic, non-diploid anywhere) embedded among ordinary records, all four containers: either the run fails naming the first record with a non-diploid genotype in a selected sample, or the spectrum equals the reference model; non-trivial = >=3 genotype classes among selected samples (or an error after the first record)",
            cases: ctx.tier.pick(1500, 50_000),
            strategy: Box::new(|| embedded_strategy().boxed()),
            eval: Box::new(eval_embedded),
        }),
    ];
    Check {
        parts,
        level: "exploration",
        assumptions: vec![
            "the lone string '.' is VCF's spelling of a wholly missing genotype (no ploidy implied): it is classified as missing, in both containers (BCF: one missing allele plus end-of-vector padding, as htslib writes it)",
        ],
        post: None,
    }
}
