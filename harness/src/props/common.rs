//! Helpers shared by the property modules: harness-side writers of spectrum files.

use crate::model::spec::Spec;

/// Text file with values printed by Rust's shortest round-trip formatting (exact on re-read).
pub fn text_bytes_exact(spec: &Spec) -> Vec<u8> {
    let shape = spec.shape.iter().map(|s| s.to_string()).collect::<Vec<_>>().join("/");
    let values = spec.values.iter().map(|v| format!("{v}")).collect::<Vec<_>>().join(" ");
    format!("#SHAPE=<{shape}>\n{values}\n").into_bytes()
}

/// Text file at a fixed precision (as sfs prints it).
pub fn text_bytes_precision(spec: &Spec, precision: usize) -> Vec<u8> {
    let shape = spec.shape.iter().map(|s| s.to_string()).collect::<Vec<_>>().join("/");
    let values = spec.values.iter().map(|v| format!("{v:.precision$}")).collect::<Vec<_>>().join(" ");
    format!("#SHAPE=<{shape}>\n{values}\n").into_bytes()
}

/// NPY 1.0 '<f8' C-order file laid out as numpy does.
pub fn npy_bytes(spec: &Spec) -> Vec<u8> {
    crate::model::npy::write_numpy_like(&spec.shape, &crate::model::npy::Dtype::F8, crate::model::npy::Order::Little, 1, &spec.values.iter().map(|v| crate::model::npy::Scalar::F64(*v)).collect::<Vec<_>>())
}

// ---------------------------------------------------------------------------------------------
// running `sfs create` on a generated call set

use serde::{Deserialize, Serialize};

use crate::{
    cli::{self, Input, Run},
    engine::Ctx,
    gen::{
        bcf, bgzf,
        callset::{CallSet, MapSpec},
    },
};

#[derive(Clone, Debug, PartialEq, Serialize, Deserialize)]
pub enum Container {
    Vcf,
    VcfGz(bgzf::Layout),
    Bcf(bgzf::Layout),
    BcfRaw,
}

impl Container {
    pub fn ext(&self) -> &'static str {
        match self {
            Container::Vcf => "vcf",
            Container::VcfGz(_) => "vcf.gz",
            Container::Bcf(_) => "bcf",
            Container::BcfRaw => "raw.bcf",
        }
    }
    pub fn label(&self) -> &'static str {
        match self {
            Container::Vcf => "vcf",
            Container::VcfGz(_) => "bgzf-vcf",
            Container::Bcf(_) => "bgzf-bcf",
            Container::BcfRaw => "raw-bcf",
        }
    }
}

/// Renders the call set; returns the bytes and the number of BGZF blocks (0 if uncompressed).
/// VCF text of the call set with the line convention decided by the data itself: LF (three in
/// five), CRLF, or LF without a final newline -- the records are the same.
pub fn vcf_text(cs: &CallSet) -> String {
    let text = cs.to_vcf();
    match (cs.records.len() * 7 + cs.samples.len()) % 5 {
        1 => text.replace('\n', "\r\n"),
        2 => text.trim_end_matches('\n').to_string(),
        _ => text,
    }
}

pub fn render(cs: &CallSet, c: &Container) -> (Vec<u8>, usize) {
    match c {
        Container::Vcf => (vcf_text(cs).into_bytes(), 0),
        Container::VcfGz(l) => bgzf::compress(vcf_text(cs).as_bytes(), l),
        Container::Bcf(l) => bgzf::compress(&bcf::to_bcf(cs).0, l),
        Container::BcfRaw => (bcf::to_bcf(cs).0, 0),
    }
}

#[derive(Clone, Debug, PartialEq, Serialize, Deserialize)]
pub struct Projection {
    /// target chromosomes m_j per population
    pub m: Vec<usize>,
    /// give as --project-individuals (requires even m_j)
    pub individuals: bool,
}

#[derive(Clone, Debug, Default, PartialEq, Serialize, Deserialize)]
pub struct CreateOpts {
    /// None: no -s/-S at all (all samples, one unnamed population)
    pub map: Option<MapSpec>,
    pub project: Option<Projection>,
    pub precision: Option<usize>,
    pub strict: bool,
    pub threads: Option<usize>,
    /// number of -v flags
    pub verbose: u8,
    /// number of -q flags (conflicts with -v)
    #[serde(default)]
    pub quiet: u8,
}

#[derive(Clone, Copy, Debug, PartialEq, Serialize, Deserialize)]
pub enum Transport {
    Path,
    StdinFile,
    StdinPipe,
    /// a pipe handed over *by path*: `... | sfs create /dev/stdin`
    DevStdin,
    /// a named pipe (mkfifo) handed over by path, `cat` writing the bytes into it
    Fifo,
}

pub fn join(v: &[usize]) -> String {
    v.iter().map(|x| x.to_string()).collect::<Vec<_>>().join(",")
}

pub fn create_argv(cs: &CallSet, opts: &CreateOpts, input_name: Option<&str>, samples_file: &str) -> Vec<String> {
    let mut a: Vec<String> = vec!["create".into()];
    for _ in 0..opts.verbose {
        a.push("-v".into());
    }
    if opts.verbose == 0 {
        for _ in 0..opts.quiet {
            a.push("-q".into());
        }
    }
    if let Some(map) = &opts.map {
        if map.as_file {
            a.push("-S".into());
            a.push(samples_file.into());
        } else {
            a.push("-s".into());
            a.push(map.inline_arg(cs));
        }
    }
    if let Some(p) = &opts.project {
        if p.individuals {
            a.push("-p".into());
            a.push(join(&p.m.iter().map(|m| m / 2).collect::<Vec<_>>()));
        } else {
            a.push("--project-shape".into());
            a.push(join(&p.m.iter().map(|m| m + 1).collect::<Vec<_>>()));
        }
    }
    if let Some(p) = opts.precision {
        a.push("--precision".into());
        a.push(p.to_string());
    }
    if opts.strict {
        a.push("--strict".into());
    }
    if let Some(t) = opts.threads {
        a.push("-t".into());
        a.push(t.to_string());
    }
    if let Some(n) = input_name {
        a.push(n.into());
    }
    a
}

/// Writes the input (and the samples file if needed) into `dir` under `tag` and runs `sfs create`.
pub fn run_create(ctx: &Ctx, dir: &std::path::Path, tag: &str, cs: &CallSet, container: &Container, opts: &CreateOpts, transport: Transport) -> (Run, Vec<String>) {
    let (bytes, _) = render(cs, container);
    run_create_bytes(ctx, dir, tag, cs, &bytes, container.ext(), opts, transport)
}

pub fn run_create_bytes(ctx: &Ctx, dir: &std::path::Path, tag: &str, cs: &CallSet, bytes: &[u8], ext: &str, opts: &CreateOpts, transport: Transport) -> (Run, Vec<String>) {
    // The name of the input file is decided by the bytes themselves: usually the customary
    // extension, otherwise a neutral one, none at all, or one that contradicts the content (a
    // compressed file keeping the name of the plain one, VCF text named .bcf, ...). What is in the
    // file decides how it is read.
    let input_name = match (bytes.len() / 3 + bytes.iter().take(40).map(|b| *b as usize).sum::<usize>()) % 10 {
        0 => format!("{tag}.input"),
        1 => tag.to_string(),
        2 => match ext {
            "vcf" => format!("{tag}.bcf"),
            "vcf.gz" => format!("{tag}.vcf"),
            "bcf" => format!("{tag}.vcf.gz"),
            _ => format!("{tag}.vcf"),
        },
        _ => format!("{tag}.{ext}"),
    };
    std::fs::write(dir.join(&input_name), bytes).expect("write input");
    let samples_file = format!("{tag}.samples");
    if let Some(map) = &opts.map {
        if map.as_file {
            std::fs::write(dir.join(&samples_file), map.file_text(cs)).expect("write samples file");
        }
    }
    match transport {
        Transport::Path => {
            let argv = create_argv(cs, opts, Some(&input_name), &samples_file);
            (cli::sfs(ctx, &argv, Input::Null, dir), argv)
        }
        Transport::StdinFile => {
            let argv = create_argv(cs, opts, None, &samples_file);
            let p = dir.join(&input_name);
            (cli::sfs(ctx, &argv, Input::File(&p), dir), argv)
        }
        Transport::StdinPipe => {
            let argv = create_argv(cs, opts, None, &samples_file);
            (cli::sfs(ctx, &argv, Input::Pipe(bytes), dir), argv)
        }
        Transport::DevStdin => {
            let argv = create_argv(cs, opts, Some("/dev/stdin"), &samples_file);
            (cli::sfs(ctx, &argv, Input::Pipe(bytes), dir), argv)
        }
        Transport::Fifo => {
            let fifo = format!("{tag}.fifo.{ext}");
            let argv = create_argv(cs, opts, Some(&fifo), &samples_file);
            // bash: $1 = fifo, $2 = input file, the rest = the sfs command line (no quoting issues)
            let script = "rm -f \"$1\"; mkfifo \"$1\" || exit 97; cat \"$2\" > \"$1\" & f=\"$1\"; shift 2; \"$@\"; rc=$?; wait; rm -f \"$f\"; exit $rc";
            let mut args: Vec<String> = vec!["-c".into(), script.into(), "fifo-transport".into(), fifo.clone(), input_name.clone(), ctx.sfs_bin.to_string_lossy().into_owned()];
            args.extend(argv.iter().cloned());
            (cli::run_bin(ctx, std::path::Path::new("/bin/bash"), &args, Input::Null, dir, &[]), argv)
        }
    }
}

/// `Skipped X/Y sites` from stderr, if present.
pub fn parse_skipped(stderr: &str) -> Option<(usize, usize)> {
    let i = stderr.find("Skipped ")?;
    let rest = &stderr[i + 8..];
    let end = rest.find(' ')?;
    let (x, y) = rest[..end].split_once('/')?;
    Some((x.parse().ok()?, y.parse().ok()?))
}

use proptest::prelude::*;

/// Container mix weighted to plain VCF.
pub fn container_strategy() -> impl Strategy<Value = Container> {
    prop_oneof![
        5 => Just(Container::Vcf),
        2 => bgzf::layout_strategy().prop_map(Container::VcfGz),
        2 => bgzf::layout_strategy().prop_map(Container::Bcf),
        1 => Just(Container::BcfRaw),
    ]
}

/// Does `text` contain `needle` as a whole token, i.e. not as part of a longer identifier or number?
pub fn has_bounded(text: &str, needle: &str) -> bool {
    if needle.is_empty() {
        return false;
    }
    let bytes = text.as_bytes();
    text.match_indices(needle).any(|(i, m)| {
        let before_ok = i == 0 || !(bytes[i - 1].is_ascii_alphanumeric() || bytes[i - 1] == b'_');
        let end = i + m.len();
        let after_ok = end == bytes.len() || !(bytes[end].is_ascii_alphanumeric() || bytes[end] == b'_');
        before_ok && after_ok
    })
}

/// Does a diagnostic name the site: the contig name and the position, each as a whole token
/// (whatever the punctuation between them; contig names may themselves contain `:`, `*`, `.`, `-`)?
pub fn names_site(stderr: &str, contig: &str, pos: u64) -> bool {
    has_bounded(stderr, contig) && has_bounded(stderr, &pos.to_string())
}
