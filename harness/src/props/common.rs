//! Helpers shared by the property modules: harness-side writers of spectrum files.

use crate::model::spec::Spec;

/// Text file with values printed by Rust's shortest round-trip formatting (exact on re-read).
pub fn text_bytes_exact(spec: &Spec) -> Vec<u8> {
    let shape = spec.shape.iter().map(|s| s.to_string()).collect::<Vec<_>>().join("/");
    let values = spec.values.iter().map(|v| format!("{v}")).collect::<Vec<_>>().join(" ");
    format!("#SHAPE=<{shape}>\n{values}\n").into_bytes()
}

/// Text file at a fixed precision (as sfs prints it).
pub fn text_bytes_precision(spec: &Spec, precision: usize) -> Vec<u8> {
    let shape = spec.shape.iter().map(|s| s.to_string()).collect::<Vec<_>>().join("/");
    let values = spec.values.iter().map(|v| format!("{v:.precision$}")).collect::<Vec<_>>().join(" ");
    format!("#SHAPE=<{shape}>\n{values}\n").into_bytes()
}

/// NPY 1.0 '<f8' C-order file laid out as numpy does.
pub fn npy_bytes(spec: &Spec) -> Vec<u8> {
    crate::model::npy::write_numpy_like(&spec.shape, &crate::model::npy::Dtype::F8, crate::model::npy::Order::Little, 1, &spec.values.iter().map(|v| crate::model::npy::Scalar::F64(*v)).collect::<Vec<_>>())
}
