//! C17 — every invocation ends in success or a diagnosed error, never a panic.

use proptest::prelude::*;
use serde::{Deserialize, Serialize};

use crate::{
    cli::{self, Input, Run},
    engine::{pick_idx, sample_one, splitmix64, Ctx, EnumPart, Failure, Part, Pass, RandomPart, Verdict},
    gen::{
        bgzf::Layout,
        callset::{callset_strategy, CallSet, GenParams},
        shapes::{all_shapes, elements},
    },
    model::spec::{hashed_ints, Spec},
    props::{
        c06::ALL_STATS,
        common::{self, render, Container},
        Check,
    },
};

/// Panic signature: for sfs's own sources the file (without line), for registry crates file:line.
pub fn panic_signature(stderr: &str) -> Option<String> {
    let i = stderr.find("panicked at ")?;
    let rest = &stderr[i + 12..];
    let loc_end = rest.find(|c: char| c == '\n' || c == ',').unwrap_or(rest.len());
    let loc = rest[..loc_end].trim_end_matches(':');
    // loc = path:line:col
    let mut parts = loc.rsplitn(3, ':');
    let _col = parts.next();
    let line = parts.next().unwrap_or("?");
    let path = parts.next().unwrap_or(loc);
    let msg = rest[loc_end..].trim_start_matches([':', '\n', ' ']).lines().next().unwrap_or("").trim();
    // keep the stable head of the message: cut at the first ';' or quote (what follows usually
    // quotes input-dependent data)
    let msg = msg.split([';', '\'']).next().unwrap_or(msg).trim();
    // ... and at the second colon ("not yet implemented: unhandled type: Some(Int16(9))")
    let msg = match msg.match_indices(':').nth(1) {
        Some((i, _)) => &msg[..i],
        None => msg,
    };
    let msg: String = msg.chars().filter(|c| !c.is_ascii_digit()).take(60).collect::<String>().replace(' ', "_");
    if let Some(k) = path.find("/registry/src/") {
        let tail = &path[k + 14..];
        let tail = tail.split_once('/').map(|(_, t)| t).unwrap_or(tail);
        Some(format!("{tail}:{line}:{msg}"))
    } else if let Some(k) = path.find("/library/") {
        // the standard library (no #[track_caller] at this site): toolchain-independent form
        Some(format!("std:{}:{msg}", &path[k + 9..]))
    } else {
        Some(format!("{path}:{msg}"))
    }
}

/// The oracle of C17 for one run. Returns the signature of an excluded known finding, if any.
pub fn judge(ctx: &Ctx, run: &Run, what: &str) -> Result<Option<String>, Failure> {
    if run.timed_out {
        if std::env::var("VERIF_C17_FAIL_ON_TIMEOUT").is_ok() {
            return Err(Failure::new(format!("{what}: timed out (development aid)")));
        }
        return Ok(None); // inconclusive, already noted
    }
    if run.elapsed_ms > 5000 && std::env::var("VERIF_C17_FAIL_ON_TIMEOUT").is_ok() {
        return Err(Failure::new(format!("{what}: took {} ms (development aid)", run.elapsed_ms)));
    }
    if run.allocation_failed() {
        // not a panic / overflow / out-of-bounds access: the harness's own address-space cap was hit
        return Ok(Some("address-space-cap-hit(not-a-violation)".into()));
    }
    if run.panicked() {
        let sig = panic_signature(&run.stderr_str()).unwrap_or_else(|| format!("signal-{:?}-exit-{:?}", run.signal, run.code));
        if !ctx.strict && ctx.findings.is_open("C17", &sig) {
            return Ok(Some(sig));
        }
        if std::env::var("VERIF_C17_SURVEY").is_ok() {
            // survey mode (development aid): collect all signatures instead of stopping at the first,
            // and keep one input per signature under work/survey/
            let dir = ctx.verif_dir.join("work").join("survey");
            let _ = std::fs::create_dir_all(&dir);
            let base = dir.join(format!("{:016x}", crate::engine::hash_str(&sig)));
            if !base.with_extension("txt").exists() {
                let _ = std::fs::write(base.with_extension("txt"), format!("{sig}\n{what}\n{}", run.stderr_str()));
                let input = ctx.worker_dir(crate::engine::worker_id());
                for name in ["g6.bin", "g5.bin", "gtv.vcf"] {
                    if what.contains(name) {
                        let _ = std::fs::copy(input.join(name), base.with_extension(name));
                    }
                }
            }
            return Ok(Some(format!("SURVEY:{sig}")));
        }
        return Err(Failure::new(format!("{what}: the process panicked / aborted (signature {sig}): {}", run.describe())).with(serde_json::json!({ "signature": sig })));
    }
    match run.code {
        Some(0) => Ok(None),
        Some(_) => {
            ensure!(!run.stderr.iter().all(|b| b.is_ascii_whitespace()), "{what}: non-zero exit without a diagnostic on stderr: {}", run.describe());
            Ok(None)
        }
        None => Err(Failure::new(format!("{what}: no exit status: {}", run.describe()))),
    }
}

fn finish(pass: &mut Pass, excluded: Option<String>, run: &Run) {
    if let Some(sig) = excluded {
        pass.excluded.push(sig);
    }
    // reached past argument parsing (clap exits with 2)
    if run.code != Some(2) {
        pass.nontrivial = true;
    }
    pass.add_label(match run.code {
        Some(0) => "exit-0",
        Some(1) => "exit-1(diagnosed)",
        Some(2) => "exit-2(clap)",
        _ => "other",
    });
}

// ---------------------------------------------------------------------------------------------
// G1: statistic x shape grid

#[derive(Clone, Debug, Serialize, Deserialize)]
pub struct GridCase {
    pub shape: Vec<usize>,
    pub npy: bool,
    pub zero_values: bool,
}

fn write_spectrum(dir: &std::path::Path, name: &str, spec: &Spec, npy: bool) {
    std::fs::write(dir.join(name), if npy { common::npy_bytes(spec) } else { common::text_bytes_exact(spec) }).expect("write");
}

fn eval_grid(ctx: &Ctx, case: &GridCase) -> Verdict {
    let dir = ctx.worker_dir(crate::engine::worker_id());
    let values = if case.zero_values { vec![0.0; elements(&case.shape)] } else { hashed_ints(&case.shape, 0xC17, 13) };
    let spec = Spec::new(case.shape.clone(), values);
    let name = if case.npy { "g1.npy" } else { "g1.sfs" };
    write_spectrum(&dir, name, &spec, case.npy);
    let mut pass = Pass::new();
    for stat in ALL_STATS {
        let run = cli::sfs(ctx, &["stat", "-s", stat, name], Input::Null, &dir);
        let ex = judge(ctx, &run, &format!("`sfs stat -s {stat}` on a spectrum of shape {:?} ({})", case.shape, if case.npy { "npy" } else { "text" }))?;
        finish(&mut pass, ex, &run);
    }
    // all statistics at once, with header and another delimiter
    let run = cli::sfs(ctx, &["stat", "-H", "-d", ";", "-s", &ALL_STATS.join(","), name], Input::Null, &dir);
    let ex = judge(ctx, &run, &format!("`sfs stat -s <all>` on shape {:?}", case.shape))?;
    finish(&mut pass, ex, &run);
    pass.count("runs", ALL_STATS.len() as u64 + 1);
    Ok(pass)
}

// ---------------------------------------------------------------------------------------------
// G2: fold and single view options with arguments at and beyond their bounds

#[derive(Clone, Debug, Serialize, Deserialize)]
pub struct OptionCase {
    pub shape: Vec<usize>,
    pub npy: bool,
}

fn eval_options(ctx: &Ctx, case: &OptionCase) -> Verdict {
    let dir = ctx.worker_dir(crate::engine::worker_id());
    let spec = Spec::new(case.shape.clone(), hashed_ints(&case.shape, 0x0217, 11));
    let name = if case.npy { "g2.npy" } else { "g2.sfs" };
    write_spectrum(&dir, name, &spec, case.npy);
    let d = case.shape.len();
    let j = |v: &[usize]| v.iter().map(|x| x.to_string()).collect::<Vec<_>>().join(",");
    let mut cmds: Vec<Vec<String>> = Vec::new();
    for fill in ["nan", "zero", "minus-one", "inf"] {
        cmds.push(vec!["fold".into(), "--fill".into(), fill.into()]);
    }
    cmds.push(vec!["view".into()]);
    cmds.push(vec!["view".into(), "-O".into(), "npy".into()]);
    cmds.push(vec!["view".into(), "--mask-monomorphic".into()]);
    cmds.push(vec!["view".into(), "--normalize".into()]);
    cmds.push(vec!["view".into(), "--mask-monomorphic".into(), "--normalize".into()]);
    // marginalization: every single axis, out of range, duplicated, all axes
    let all: Vec<usize> = (0..d).collect();
    let mut axis_lists: Vec<Vec<usize>> = (0..d).map(|a| vec![a]).collect();
    axis_lists.extend([vec![d], vec![d + 7], vec![0, 0], all.clone(), vec![usize::MAX], vec![0, d]]);
    if d >= 2 {
        axis_lists.push(vec![d - 1, 0]);
    }
    // every ordered pair / triple of distinct axes (the index arithmetic after sorting the list)
    if d >= 3 {
        for a in 0..d {
            for b in 0..d {
                if a != b {
                    axis_lists.push(vec![a, b]);
                    for c in 0..d {
                        if c != a && c != b && d >= 4 {
                            axis_lists.push(vec![a, b, c]);
                        }
                    }
                }
            }
        }
    }
    for l in &axis_lists {
        cmds.push(vec!["view".into(), "-m".into(), j(l)]);
        cmds.push(vec!["view".into(), "-M".into(), j(l)]);
    }
    // projection targets: 0, equal, smaller, larger, wrong rank, huge
    let equal = case.shape.clone();
    let smaller: Vec<usize> = case.shape.iter().map(|l| (l / 2).max(1)).collect();
    let zero = vec![0; d];
    let larger: Vec<usize> = case.shape.iter().map(|l| l + 1).collect();
    let mut wrong = equal.clone();
    wrong.push(1);
    let huge = vec![1_000_000_000_000usize; d];
    let max = vec![usize::MAX; d];
    for t in [&equal, &smaller, &zero, &larger, &wrong, &huge, &max] {
        cmds.push(vec!["view".into(), "--project-shape".into(), j(t)]);
        cmds.push(vec!["view".into(), "-p".into(), j(t)]);
    }
    cmds.push(vec!["view".into(), "-p".into(), j(&vec![usize::MAX / 2; d])]);
    cmds.push(vec!["view".into(), "-p".into(), j(&vec![(usize::MAX - 1) / 2; d])]);
    let mut pass = Pass::new();
    let n = cmds.len() as u64;
    for mut c in cmds {
        c.push(name.into());
        let run = cli::sfs(ctx, &c, Input::Null, &dir);
        let ex = judge(ctx, &run, &format!("`sfs {}` on a spectrum of shape {:?}", c.join(" "), case.shape))?;
        finish(&mut pass, ex, &run);
    }
    pass.count("runs", n);
    Ok(pass)
}

// ---------------------------------------------------------------------------------------------
// G3: precision and thread values, G4: sample lists

#[derive(Clone, Debug, Serialize, Deserialize)]
pub struct ArgCase {
    pub argv: Vec<String>,
    /// files to create in the working directory before the run
    pub files: Vec<(String, String)>,
    pub callset_seed: Option<u64>,
}

fn small_callset(seed: u64) -> CallSet {
    let params = GenParams {
        max_records: 6,
        max_samples: 4,
        odd_ploidy: false,
        ..GenParams::default()
    };
    let mut cs = sample_one(&callset_strategy(params), seed);
    // fixed, simple sample names so that the argument cases can refer to them
    for (i, s) in cs.samples.iter_mut().enumerate() {
        *s = format!("smp{i}");
    }
    while cs.samples.len() < 3 {
        let i = cs.samples.len();
        cs.samples.push(format!("smp{i}"));
        for r in cs.records.iter_mut() {
            r.gts.push(crate::gen::callset::Gt::diploid(Some(0), Some(1), false));
        }
    }
    cs
}

fn arg_cases() -> Vec<ArgCase> {
    let mut v = Vec::new();
    let values = ["0", "1", "17", "18", "1000", "65535", "65536", "4294967296", "18446744073709551615", "18446744073709551616", "-1", "abc", ""];
    let spectrum = ("a.sfs".to_string(), "#SHAPE=<3/2>\n1 2 3 4 5 6\n".to_string());
    let spectrum1 = ("b.sfs".to_string(), "#SHAPE=<5>\n10 4 3 2 1\n".to_string());
    for p in values {
        v.push(ArgCase { argv: vec!["view".into(), "--precision".into(), p.into(), "a.sfs".into()], files: vec![spectrum.clone()], callset_seed: None });
        v.push(ArgCase { argv: vec!["fold".into(), "--precision".into(), p.into(), "a.sfs".into()], files: vec![spectrum.clone()], callset_seed: None });
        v.push(ArgCase { argv: vec!["stat".into(), "-s".into(), "sum".into(), "--precision".into(), p.into(), "a.sfs".into()], files: vec![spectrum.clone()], callset_seed: None });
        v.push(ArgCase { argv: vec!["stat".into(), "-s".into(), "pi,theta".into(), "--precision".into(), format!("{p},3"), "b.sfs".into()], files: vec![spectrum1.clone()], callset_seed: None });
        v.push(ArgCase { argv: vec!["create".into(), "--precision".into(), p.into(), "-p".into(), "1".into(), "in.vcf".into()], files: vec![], callset_seed: Some(3) });
    }
    v.push(ArgCase { argv: vec!["stat".into(), "-s".into(), "pi,theta".into(), "--precision".into(), "1,2,3".into(), "b.sfs".into()], files: vec![spectrum1.clone()], callset_seed: None });
    for t in ["0", "1", "2", "5", "-1", "x", "18446744073709551616"] {
        for name in ["in.vcf", "in.vcf.gz", "in.bcf"] {
            v.push(ArgCase { argv: vec!["create".into(), "--threads".into(), t.into(), name.into()], files: vec![], callset_seed: Some(5) });
        }
    }
    // projection arguments of create
    for p in ["0", "1", "2", "3", "1,1", "100", "18446744073709551615", "9223372036854775807", "9223372036854775808", "1,", ","] {
        v.push(ArgCase { argv: vec!["create".into(), "-p".into(), p.into(), "in.vcf".into()], files: vec![], callset_seed: Some(7) });
        v.push(ArgCase { argv: vec!["create".into(), "--project-shape".into(), p.into(), "in.vcf".into()], files: vec![], callset_seed: Some(7) });
        v.push(ArgCase { argv: vec!["create".into(), "-s".into(), "smp0=A,smp1=B".into(), "--project-shape".into(), p.into(), "in.bcf".into()], files: vec![], callset_seed: Some(7) });
    }
    // G4: sample lists
    let lists = [
        "smp0,smp0",
        "smp0=A,smp0=A",
        "smp0=A,smp1=B,smp0=B",
        "smp0=A,smp0=B",
        "smp0=A,smp1=A,smp0=B,smp1=B",
        "smp0=A,smp1=B,smp2=C,smp0=C,smp1=C",
        "smp0,smp0=A",
        "smp0=A,smp0",
        "nosuch",
        "smp0,nosuch=A",
        "",
        ",",
        "smp0,",
        ",smp0",
        "=",
        "=A",
        "smp0=",
        "smp0==A",
        "smp0=A=B",
        "smp0=A,smp1==",
        "smp0 ,smp1",
        "smp0=\u{e9}\u{1F600}",
    ];
    for l in lists {
        for name in ["in.vcf", "in.bcf"] {
            v.push(ArgCase { argv: vec!["create".into(), "-s".into(), l.into(), name.into()], files: vec![], callset_seed: Some(11) });
            v.push(ArgCase { argv: vec!["create".into(), "--strict".into(), "-s".into(), l.into(), name.into()], files: vec![], callset_seed: Some(11) });
            v.push(ArgCase { argv: vec!["create".into(), "-p".into(), "1".into(), "-s".into(), l.into(), name.into()], files: vec![], callset_seed: Some(11) });
        }
    }
    let files = [
        "",
        "\n",
        "\n\n",
        "smp0\nsmp0\n",
        "smp0\tA\nsmp0\tB\n",
        "smp0\tA\nsmp1\tB\nsmp0\tB\n",
        "smp0\tA\tB\n",
        "smp0\t\n",
        "\tA\n",
        "smp0\r\nsmp1\r\n",
        "smp0 A\n",
        "smp0\tA\n\nsmp1\tB\n",
        "nosuch\n",
        "smp0\tA\nsmp1\tA\nsmp0\tB\nsmp1\tB\nsmp2\tB",
    ];
    for f in files {
        v.push(ArgCase { argv: vec!["create".into(), "-S".into(), "list.txt".into(), "in.vcf".into()], files: vec![("list.txt".into(), f.into())], callset_seed: Some(13) });
        v.push(ArgCase { argv: vec!["create".into(), "-S".into(), "list.txt".into(), "-p".into(), "1".into(), "in.bcf".into()], files: vec![("list.txt".into(), f.into())], callset_seed: Some(13) });
    }
    v.push(ArgCase { argv: vec!["create".into(), "-S".into(), "does-not-exist.txt".into(), "in.vcf".into()], files: vec![], callset_seed: Some(13) });
    v.push(ArgCase { argv: vec!["create".into(), "does-not-exist.vcf".into()], files: vec![], callset_seed: None });
    v.push(ArgCase { argv: vec!["view".into(), "does-not-exist.sfs".into()], files: vec![], callset_seed: None });
    v.push(ArgCase { argv: vec!["view".into(), ".".into()], files: vec![], callset_seed: None });
    v.push(ArgCase { argv: vec!["create".into(), ".".into()], files: vec![], callset_seed: None });
    v.push(ArgCase { argv: vec!["view".into(), "-o".into(), "/nonexistent-dir/x.sfs".into(), "a.sfs".into()], files: vec![spectrum.clone()], callset_seed: None });
    v.push(ArgCase { argv: vec!["fold".into(), "-o".into(), ".".into(), "a.sfs".into()], files: vec![spectrum], callset_seed: None });
    v
}

fn eval_args(ctx: &Ctx, case: &ArgCase) -> Verdict {
    let dir = ctx.worker_dir(crate::engine::worker_id());
    for (name, content) in &case.files {
        std::fs::write(dir.join(name), content).expect("write");
    }
    if let Some(seed) = case.callset_seed {
        let cs = small_callset(seed);
        std::fs::write(dir.join("in.vcf"), render(&cs, &Container::Vcf).0).expect("write");
        std::fs::write(dir.join("in.vcf.gz"), render(&cs, &Container::VcfGz(Layout::plain())).0).expect("write");
        std::fs::write(dir.join("in.bcf"), render(&cs, &Container::Bcf(Layout::plain())).0).expect("write");
    }
    let run = cli::sfs(ctx, &case.argv, Input::Null, &dir);
    let mut pass = Pass::new();
    let ex = judge(ctx, &run, &format!("`sfs {}` (files {:?})", case.argv.join(" "), case.files))?;
    finish(&mut pass, ex, &run);
    Ok(pass)
}

// ---------------------------------------------------------------------------------------------
// G5 / G6: mutated bytes

#[derive(Clone, Debug, Serialize, Deserialize)]
pub enum Mutation {
    BitFlip { pos: u16, bit: u8 },
    SetByte { pos: u16, val: u8 },
    Delete { pos: u16, len: u8 },
    Insert { pos: u16, bytes: Vec<u8> },
    Duplicate { pos: u16, len: u8 },
    Truncate { pos: u16 },
    Splice { other: u16, at: u16, from: u16 },
    /// replace the k-th whitespace/tab-separated token by a hostile one
    ReplaceToken { index: u16, with: u8 },
    /// overwrite 4 bytes with a little-endian value
    SetU32 { pos: u16, val: u32 },
}

const HOSTILE_TOKENS: [&str; 22] = [
    "0", "-1", "1e308", "1e309", "-1e309", "nan", "NaN", "inf", "-inf", "abc", "", "18446744073709551616", "4294967296", "99999999999999999999999999", "0x10", "1e-400", ".", "0/x", "1/2/3/4/5", "#SHAPE=<0>", "#SHAPE=<4294967296/4294967296>", "\u{1F600}",
];

fn mutation_strategy() -> impl Strategy<Value = Mutation> {
    prop_oneof![
        3 => (any::<u16>(), 0u8..8).prop_map(|(pos, bit)| Mutation::BitFlip { pos, bit }),
        3 => (any::<u16>(), prop_oneof![any::<u8>(), Just(0u8), Just(0xff), Just(b'\n'), Just(b'\t'), Just(b'/'), Just(b'0'), Just(b'-')]).prop_map(|(pos, val)| Mutation::SetByte { pos, val }),
        2 => (any::<u16>(), 1u8..40).prop_map(|(pos, len)| Mutation::Delete { pos, len }),
        2 => (any::<u16>(), prop::collection::vec(any::<u8>(), 1..12)).prop_map(|(pos, bytes)| Mutation::Insert { pos, bytes }),
        1 => (any::<u16>(), 1u8..60).prop_map(|(pos, len)| Mutation::Duplicate { pos, len }),
        2 => any::<u16>().prop_map(|pos| Mutation::Truncate { pos }),
        2 => (any::<u16>(), any::<u16>(), any::<u16>()).prop_map(|(other, at, from)| Mutation::Splice { other, at, from }),
        4 => (any::<u16>(), any::<u8>()).prop_map(|(index, with)| Mutation::ReplaceToken { index, with }),
        2 => (any::<u16>(), prop_oneof![Just(0u32), Just(1), Just(0xffff_ffff), Just(0x7fff_ffff), Just(0x8000_0000), any::<u32>()]).prop_map(|(pos, val)| Mutation::SetU32 { pos, val }),
    ]
}

fn apply(bytes: &mut Vec<u8>, m: &Mutation, seeds: &[Vec<u8>]) {
    let len = bytes.len();
    match m {
        Mutation::BitFlip { pos, bit } if len > 0 => {
            let p = pick_idx(*pos, len);
            bytes[p] ^= 1 << bit;
        }
        Mutation::SetByte { pos, val } if len > 0 => {
            let p = pick_idx(*pos, len);
            bytes[p] = *val;
        }
        Mutation::Delete { pos, len: l } if len > 0 => {
            let p = pick_idx(*pos, len);
            let e = (p + *l as usize).min(len);
            bytes.drain(p..e);
        }
        Mutation::Insert { pos, bytes: ins } => {
            let p = pick_idx(*pos, len + 1);
            bytes.splice(p..p, ins.iter().copied());
        }
        Mutation::Duplicate { pos, len: l } if len > 0 => {
            let p = pick_idx(*pos, len);
            let e = (p + *l as usize).min(len);
            let chunk = bytes[p..e].to_vec();
            bytes.splice(e..e, chunk);
        }
        Mutation::Truncate { pos } => {
            bytes.truncate(pick_idx(*pos, len + 1));
        }
        Mutation::Splice { other, at, from } => {
            let o = &seeds[pick_idx(*other, seeds.len())];
            let p = pick_idx(*at, len + 1);
            let q = pick_idx(*from, o.len() + 1);
            bytes.truncate(p);
            bytes.extend(&o[q..]);
        }
        Mutation::ReplaceToken { index, with } => {
            // token boundaries: space, tab, newline, comma, colon, semicolon
            let is_sep = |b: u8| matches!(b, b' ' | b'\t' | b'\n' | b',' | b':' | b';' | b'=');
            let mut tokens: Vec<(usize, usize)> = Vec::new();
            let mut start = None;
            for (i, b) in bytes.iter().enumerate() {
                if is_sep(*b) {
                    if let Some(s) = start.take() {
                        tokens.push((s, i));
                    }
                } else if start.is_none() {
                    start = Some(i);
                }
            }
            if let Some(s) = start {
                tokens.push((s, len));
            }
            if !tokens.is_empty() {
                let (s, e) = tokens[pick_idx(*index, tokens.len())];
                let t = HOSTILE_TOKENS[*with as usize % HOSTILE_TOKENS.len()];
                bytes.splice(s..e, t.bytes());
            }
        }
        Mutation::SetU32 { pos, val } if len >= 4 => {
            let p = pick_idx(*pos, len - 3);
            bytes[p..p + 4].copy_from_slice(&val.to_le_bytes());
        }
        _ => {}
    }
}

pub fn spectrum_seeds() -> Vec<Vec<u8>> {
    let mut seeds = Vec::new();
    let shapes: [&[usize]; 9] = [&[5], &[2], &[1], &[3, 3], &[2, 4], &[1, 3], &[2, 3, 2], &[3, 1, 2, 2], &[1, 1]];
    for (k, shape) in shapes.iter().enumerate() {
        let spec = Spec::new(shape.to_vec(), hashed_ints(shape, k as u64, 50));
        seeds.push(common::text_bytes_exact(&spec));
        seeds.push(common::text_bytes_precision(&spec, 6));
        seeds.push(common::npy_bytes(&spec));
        // other dtypes / versions through the numpy-layout writer
        let dt = crate::model::npy::ALL_DTYPES[k % 10];
        let order = if k % 2 == 0 { crate::model::npy::Order::Little } else { crate::model::npy::Order::Big };
        let vals: Vec<crate::model::npy::Scalar> = spec.values.iter().map(|v| crate::model::npy::Scalar::Bits(*v as u64)).collect();
        seeds.push(crate::model::npy::write_numpy_like(shape, &dt, order, 1 + (k % 3) as u8, &vals));
    }
    seeds.push(b"#SHAPE=<2/2>\nNaN inf -inf 1e300\n".to_vec());
    seeds
}

pub fn callset_seeds() -> Vec<(Vec<u8>, &'static str)> {
    let mut seeds = Vec::new();
    for s in 0..6u64 {
        let params = GenParams {
            max_records: 8,
            max_samples: 4,
            ..GenParams::default()
        };
        let mut cs = sample_one(&callset_strategy(params), 1000 + s);
        for (i, n) in cs.samples.iter_mut().enumerate() {
            *n = format!("smp{i}");
        }
        let layout = Layout { cuts: crate::gen::bgzf::Cuts::LinePerBlock, ..Layout::plain() };
        seeds.push((render(&cs, &Container::Vcf).0, "vcf"));
        seeds.push((render(&cs, &Container::VcfGz(layout.clone())).0, "vcf.gz"));
        seeds.push((render(&cs, &Container::Bcf(Layout { level: 0, ..Layout::plain() })).0, "bcf"));
        seeds.push((render(&cs, &Container::BcfRaw).0, "raw.bcf"));
    }
    seeds
}

#[derive(Clone, Debug, Serialize, Deserialize)]
pub struct MutCase {
    pub seed: u16,
    pub mutations: Vec<Mutation>,
    pub command: u16,
    pub stdin: bool,
}

fn mut_strategy() -> impl Strategy<Value = MutCase> {
    (any::<u16>(), prop::collection::vec(mutation_strategy(), 1..4), any::<u16>(), prop::bool::weighted(0.3)).prop_map(|(seed, mutations, command, stdin)| MutCase { seed, mutations, command, stdin })
}

fn spectrum_commands() -> Vec<Vec<&'static str>> {
    vec![
        vec!["view"],
        vec!["view", "-O", "npy"],
        vec!["view", "--normalize", "--mask-monomorphic"],
        vec!["view", "-m", "0"],
        vec!["view", "-M", "0"],
        vec!["view", "-p", "1"],
        vec!["view", "--project-shape", "2,2"],
        vec!["fold"],
        vec!["fold", "--fill", "zero"],
        vec!["stat", "-s", "sum,s"],
        vec!["stat", "-s", "pi,theta,d-tajima,d-fu-li"],
        vec!["stat", "-s", "f2,fst,pi-xy"],
        vec!["stat", "-s", "king,r0,r1"],
        vec!["stat", "-s", "f3"],
        vec!["stat", "-s", "f4"],
    ]
}

fn callset_commands() -> Vec<Vec<&'static str>> {
    vec![
        vec!["create"],
        vec!["create", "-t", "1"],
        vec!["create", "--strict"],
        vec!["create", "-p", "1"],
        vec!["create", "-s", "smp0"],
        vec!["create", "-s", "smp0=A,smp1=B"],
        vec!["create", "-s", "smp0=A,smp1=B", "--project-shape", "2,2"],
        vec!["create", "-vv", "-s", "smp1,smp0"],
    ]
}

fn eval_mut_spectrum(ctx: &Ctx, case: &MutCase) -> Verdict {
    let seeds = spectrum_seeds();
    let mut bytes = seeds[pick_idx(case.seed, seeds.len())].clone();
    for m in &case.mutations {
        apply(&mut bytes, m, &seeds);
    }
    run_on_bytes(ctx, &bytes, &spectrum_commands(), case.command, case.stdin, "g5.bin")
}

fn eval_mut_callset(ctx: &Ctx, case: &MutCase) -> Verdict {
    let seeds = callset_seeds();
    let raw: Vec<Vec<u8>> = seeds.iter().map(|s| s.0.clone()).collect();
    let k = pick_idx(case.seed, seeds.len());
    let mut bytes = raw[k].clone();
    for m in &case.mutations {
        apply(&mut bytes, m, &raw);
    }
    let mut v = run_on_bytes(ctx, &bytes, &callset_commands(), case.command, case.stdin, "g6.bin")?;
    v.add_label(format!("seed-container={}", seeds[k].1));
    Ok(v)
}

fn run_on_bytes(ctx: &Ctx, bytes: &[u8], commands: &[Vec<&'static str>], command: u16, stdin: bool, name: &str) -> Verdict {
    let dir = ctx.worker_dir(crate::engine::worker_id());
    let path = dir.join(name);
    std::fs::write(&path, bytes).expect("write");
    let mut argv: Vec<String> = commands[pick_idx(command, commands.len())].iter().map(|s| s.to_string()).collect();
    let run = if stdin {
        cli::sfs(ctx, &argv, Input::File(&path), &dir)
    } else {
        argv.push(name.into());
        cli::sfs(ctx, &argv, Input::Null, &dir)
    };
    let mut pass = Pass::new();
    let ex = judge(ctx, &run, &format!("`sfs {}` on {} mutated bytes ({})", argv.join(" "), bytes.len(), cli::cut(&String::from_utf8_lossy(bytes), 120)))?;
    finish(&mut pass, ex, &run);
    Ok(pass)
}

// ---------------------------------------------------------------------------------------------
// G7: tiny inputs and prefixes

#[derive(Clone, Debug, Serialize, Deserialize)]
pub struct TinyCase {
    pub bytes: Vec<u8>,
    pub callset: bool,
}

fn tiny_cases() -> Vec<TinyCase> {
    let alphabet: [u8; 12] = [0x00, 0x0a, 0x1f, 0x8b, b'#', b'S', b'B', b'C', 0x93, b'N', b'0', 0xff];
    let mut v = Vec::new();
    let mut push = |bytes: Vec<u8>| {
        v.push(TinyCase { bytes: bytes.clone(), callset: false });
        v.push(TinyCase { bytes, callset: true });
    };
    push(vec![]);
    for a in alphabet {
        push(vec![a]);
        for b in alphabet {
            push(vec![a, b]);
        }
    }
    let mut prefixes = |bytes: &[u8], callset: bool| {
        for l in 0..=bytes.len().min(64) {
            v.push(TinyCase { bytes: bytes[..l].to_vec(), callset });
        }
    };
    for s in spectrum_seeds().iter().step_by(3) {
        prefixes(s, false);
    }
    for (s, _) in callset_seeds().iter().take(8) {
        prefixes(s, true);
    }
    v
}

fn eval_tiny(ctx: &Ctx, case: &TinyCase) -> Verdict {
    let dir = ctx.worker_dir(crate::engine::worker_id());
    let path = dir.join("g7.bin");
    std::fs::write(&path, &case.bytes).expect("write");
    let cmds: Vec<Vec<&str>> = if case.callset { vec![vec!["create"], vec!["create", "-s", "smp0"]] } else { vec![vec!["view"], vec!["fold"], vec!["stat", "-s", "sum"]] };
    let mut pass = Pass::new();
    for c in cmds {
        for stdin in [false, true] {
            let mut argv: Vec<String> = c.iter().map(|s| s.to_string()).collect();
            let run = if stdin {
                cli::sfs(ctx, &argv, Input::File(&path), &dir)
            } else {
                argv.push("g7.bin".into());
                cli::sfs(ctx, &argv, Input::Null, &dir)
            };
            let ex = judge(ctx, &run, &format!("`sfs {}`{} on the {}-byte input {:?}", argv.join(" "), if stdin { " < file" } else { "" }, case.bytes.len(), case.bytes))?;
            finish(&mut pass, ex, &run);
        }
    }
    Ok(pass)
}

// ---------------------------------------------------------------------------------------------
// hostile GT values in otherwise valid VCF text

#[derive(Clone, Debug, Serialize, Deserialize)]
pub struct GtValueCase {
    pub gt: String,
    pub format_keys: String,
}

fn gt_value_cases() -> Vec<GtValueCase> {
    let gts = [
        "\u{e9}/0", "0/\u{e9}", "\u{383}", "\u{1F600}", "\u{1F600}/\u{1F600}", "0\u{e9}1", "\u{661}/\u{662}", "0/", "/0", "/", "|", "||", "0//1", "0|1|", "0/1/", "/0/1", "4294967296/0", "0/4294967296",
        "99999999999999999999/0", "18446744073709551615|18446744073709551615", "-1/0", "0/-1", "+1/0", " 0/1", "0 /1", "0/1 ", "0/1:", ":", "0/1:5:6:7", "./.", ".", "..", "./", "/.", "0/.x", "x", "1e3/0", "0x1/0", "0/1\u{0}", "\u{0}",
        "0/0/0/0/0/0/0/0/0/0/0/0/0/0/0/0/0/0/0/0/0/0/0/0/0/0/0/0/0/0/0/0", "255/255", "256/0", "127/128",
    ];
    let mut v = Vec::new();
    for gt in gts {
        for keys in ["GT", "GT:DP", "DP:GT"] {
            v.push(GtValueCase { gt: gt.to_string(), format_keys: keys.to_string() });
        }
    }
    v
}

fn eval_gt_value(ctx: &Ctx, case: &GtValueCase) -> Verdict {
    let dir = ctx.worker_dir(crate::engine::worker_id());
    let value = |gt: &str| match case.format_keys.as_str() {
        "GT" => gt.to_string(),
        "GT:DP" => format!("{gt}:7"),
        _ => format!("7:{gt}"),
    };
    let text = format!(
        "##fileformat=VCFv4.3\n##contig=<ID=chr1,length=1000>\n##FORMAT=<ID=GT,Number=1,Type=String,Description=\"Genotype\">\n##FORMAT=<ID=DP,Number=1,Type=Integer,Description=\"Depth\">\n#CHROM\tPOS\tID\tREF\tALT\tQUAL\tFILTER\tINFO\tFORMAT\tsmp0\tsmp1\nchr1\t5\t.\tA\tC\t.\t.\t.\t{}\t{}\t{}\nchr1\t9\t.\tA\tC\t.\t.\t.\t{}\t{}\t{}\n",
        case.format_keys,
        value("0/1"),
        value("1/1"),
        case.format_keys,
        value(&case.gt),
        value("0/0"),
    );
    std::fs::write(dir.join("gtv.vcf"), &text).expect("write");
    let mut pass = Pass::new();
    for argv in [vec!["create", "gtv.vcf"], vec!["create", "-s", "smp0", "gtv.vcf"], vec!["create", "-s", "smp1", "gtv.vcf"], vec!["create", "--strict", "gtv.vcf"], vec!["create", "-p", "1", "gtv.vcf"]] {
        let run = cli::sfs(ctx, &argv, Input::Null, &dir);
        let ex = judge(ctx, &run, &format!("`sfs {}` on a VCF whose second record has the sample value {:?} under FORMAT {}", argv.join(" "), value(&case.gt), case.format_keys))?;
        finish(&mut pass, ex, &run);
    }
    Ok(pass)
}

// ---------------------------------------------------------------------------------------------
// absurd declared shapes (text and npy)

#[derive(Clone, Debug, Serialize, Deserialize)]
pub struct AbsurdCase {
    pub content: Vec<u8>,
    pub name: String,
}

fn absurd_cases() -> Vec<AbsurdCase> {
    let mut v = Vec::new();
    let headers = [
        "0", "0/0", "1/0", "0/3", "4294967296/4294967296", "18446744073709551615", "18446744073709551615/2", "18446744073709551616", "9223372036854775808/2", "1/1/1/1/1/1/1/1/1/1/1/1/1/1/1/1/1/1/1/1/1/1/1/1/1/1/1/1/1/1/1/1/1/1/1/1/1/1/1/1", "", "/", "3/", "/3", "-1", "3/-1", "a", "2/2",
        "65536/65536/65536/65536",
    ];
    for h in headers {
        for body in ["", "\n", "1 2 3 4\n", "1\n", "0\n"] {
            v.push(AbsurdCase { content: format!("#SHAPE=<{h}>\n{body}").into_bytes(), name: "abs.sfs".into() });
        }
    }
    // every order of the pieces of a text header, and doubled / dropped pieces
    {
        let pieces = ["=", "<", "3", ">"];
        let mut orders: Vec<Vec<&str>> = Vec::new();
        fn permute<'a>(cur: &mut Vec<&'a str>, rest: &mut Vec<&'a str>, out: &mut Vec<Vec<&'a str>>) {
            if rest.is_empty() {
                out.push(cur.clone());
                return;
            }
            for i in 0..rest.len() {
                let x = rest.remove(i);
                cur.push(x);
                permute(cur, rest, out);
                cur.pop();
                rest.insert(i, x);
            }
        }
        permute(&mut Vec::new(), &mut pieces.to_vec(), &mut orders);
        for o in orders {
            v.push(AbsurdCase { content: format!("#SHAPE{}\n1 2 3\n", o.concat()).into_bytes(), name: "abs.sfs".into() });
        }
        for extra in ["=<<3>", "=<3>>", "=<3><3>", "=>3<", "><3>", "=<>3", "=<3", "=3>", "=<3>x<", "=<3/>", "=</3>", "=<3//3>", "=<+3>", "=<-3>", "=< 3 >"] {
            v.push(AbsurdCase { content: format!("#SHAPE{extra}\n1 2 3\n").into_bytes(), name: "abs.sfs".into() });
        }
    }
    // shapes whose npy header length sweeps every residue modulo 64 (the writer pads to a multiple of
    // 64): conversion to npy must never panic on a padding of 0 or 64 bytes
    for c in crate::props::c15::residue_cases().into_iter().step_by(2) {
        let n: usize = c.shape.iter().product();
        if n <= 3000 {
            let header: Vec<String> = c.shape.iter().map(|l| l.to_string()).collect();
            v.push(AbsurdCase { content: format!("#SHAPE=<{}>\n{}\n", header.join("/"), vec!["1"; n].join(" ")).into_bytes(), name: "abs.sfs".into() });
        }
    }
    // small valid spectra of every shape over a few lengths: shapes whose number of entries or of
    // axes coincides with what a statistic expects (9 entries in two axes is 3/3, but also 9/1 and
    // 1/9; 27 entries, 81 entries, a third axis of length 1) while the shape itself does not
    {
        let mut shapes: Vec<Vec<usize>> = Vec::new();
        for axes in 1..=3usize {
            for idx in crate::gen::shapes::odometer(&vec![4; axes]) {
                shapes.push(idx.iter().map(|i| [1usize, 2, 3, 9][*i]).collect());
            }
        }
        for idx in crate::gen::shapes::odometer(&[2, 2, 2, 2]) {
            shapes.push(idx.iter().map(|i| [1usize, 3][*i]).collect());
        }
        for shape in shapes {
            let n: usize = shape.iter().product();
            let header: Vec<String> = shape.iter().map(|l| l.to_string()).collect();
            let body: Vec<String> = (0..n).map(|i| ((i * 7 + 3) % 11).to_string()).collect();
            v.push(AbsurdCase { content: format!("#SHAPE=<{}>\n{}\n", header.join("/"), body.join(" ")).into_bytes(), name: "abs.sfs".into() });
        }
    }
    // very many axes of length 1: one value, but a header that outgrows what NPY 1.0 can declare
    // (65 535 bytes) when converted
    for axes in [5_000usize, 21_800, 22_000, 40_000] {
        v.push(AbsurdCase { content: format!("#SHAPE=<{}>\n7\n", vec!["1"; axes].join("/")).into_bytes(), name: "abs.sfs".into() });
    }
    // every tuple of up to three axis lengths over small and extreme values: an empty axis next to
    // lengths whose product (or whose strides) overflow, in every position
    let tokens = ["0", "1", "2", "3", "4294967296", "9223372036854775808", "18446744073709551615"];
    let mut tuples: Vec<Vec<&str>> = Vec::new();
    for a in tokens {
        tuples.push(vec![a]);
        for b in tokens {
            tuples.push(vec![a, b]);
            for c in tokens {
                tuples.push(vec![a, b, c]);
            }
        }
    }
    for t in &tuples {
        for body in ["\n", "1 2\n", "1 2 3 4\n"] {
            v.push(AbsurdCase { content: format!("#SHAPE=<{}>\n{body}", t.join("/")).into_bytes(), name: "abs.sfs".into() });
        }
    }
    for t in tuples.iter().filter(|t| t.iter().all(|x| *x != "3" && *x != "9223372036854775808")) {
        let dict = format!("{{'descr': '<f8', 'fortran_order': False, 'shape': ({}{}), }}", t.join(", "), if t.len() == 1 { "," } else { "" });
        for data in [0usize, 16, 32] {
            let mut bytes = crate::model::npy::wrap_header(&dict, 1, 64);
            bytes.extend(vec![0u8; data]);
            v.push(AbsurdCase { content: bytes, name: "abs.npy".into() });
        }
    }
    for extra in ["#SHAPE=<2>", "#SHAPE=<2>\n", "#SHAPE=<2>\n1", "#SHAPE=<2>\n1 2 3", "#SHAPE", "#SHAPE=", "#SHAPE=<", "#SHAPE=<2", "#SHAPE=2\n1 2\n", "#SHAPE=<2>\n1 x\n", "#SHAPE=<2>\n1\n2\n", "#SHAPE=<2>\r\n1 2\r\n", "#SHAPE=<\u{0662}>\n1 2\n", "#SHAPE=<2>\n\u{0661} \u{0662}\n"] {
        v.push(AbsurdCase { content: extra.as_bytes().to_vec(), name: "abs.sfs".into() });
    }
    // npy headers with absurd shapes / header lengths
    let dicts = [
        "{'descr': '<f8', 'fortran_order': False, 'shape': (0,), }",
        "{'descr': '<f8', 'fortran_order': False, 'shape': (0, 3), }",
        "{'descr': '<f8', 'fortran_order': False, 'shape': (4294967296, 4294967296), }",
        "{'descr': '<f8', 'fortran_order': False, 'shape': (18446744073709551615,), }",
        "{'descr': '<f8', 'fortran_order': False, 'shape': (18446744073709551616,), }",
        "{'descr': '<f8', 'fortran_order': False, 'shape': (), }",
        "{'descr': '<f8', 'fortran_order': False, 'shape': (2,), 'shape': (3,), }",
        "{'descr': '<f8', 'fortran_order': False, }",
        "{}",
        "{'descr': '<f8', 'fortran_order': True, 'shape': (2,), }",
        "{'descr': '<u1', 'fortran_order': False, 'shape': (65536, 65536, 65536, 65536), }",
    ];
    for d in dicts {
        for version in [1u8, 2, 3] {
            for data in [0usize, 8, 24] {
                let mut bytes = crate::model::npy::wrap_header(d, version, 64);
                bytes.extend(vec![0u8; data]);
                v.push(AbsurdCase { content: bytes, name: "abs.npy".into() });
            }
        }
    }
    // header length fields
    for (version, len) in [(1u8, 0u32), (1, 0xffff), (2, 0), (2, 0xffff_ffff), (3, 0x7fff_ffff), (2, 1 << 20), (0, 10), (4, 10), (255, 255)] {
        let mut bytes = b"\x93NUMPY".to_vec();
        bytes.push(version);
        bytes.push(0);
        if version == 1 {
            bytes.extend((len as u16).to_le_bytes());
        } else {
            bytes.extend(len.to_le_bytes());
        }
        bytes.extend(b"{'descr': '<f8', 'fortran_order': False, 'shape': (2,), }          \n");
        bytes.extend([0u8; 16]);
        v.push(AbsurdCase { content: bytes, name: "abs.npy".into() });
    }
    v
}

#[derive(Clone, Debug, Serialize, Deserialize)]
pub struct DeepCase {
    pub axes: usize,
    /// identity projection (otherwise: remove axis 1)
    pub project: bool,
}

fn eval_deep(ctx: &Ctx, case: &DeepCase) -> Verdict {
    let dir = ctx.worker_dir(crate::engine::worker_id());
    let n = case.axes;
    let mut lens = vec!["1"; n];
    lens[0] = "3";
    std::fs::write(dir.join("deep.sfs"), format!("#SHAPE=<{}>\n1 2 3\n", lens.join("/"))).expect("write");
    let mut argv: Vec<String> = vec!["view".into()];
    if case.project {
        // one argument may not exceed 128 KiB: the list is split, clap appends the occurrences
        for chunk in lens.chunks(40_000) {
            argv.push("--project-shape".into());
            argv.push(chunk.join(","));
        }
    } else {
        argv.extend(["-m".to_string(), "1".to_string()]);
    }
    argv.push("deep.sfs".into());
    let run = cli::sfs(ctx, &argv, Input::Null, &dir);
    let what = format!("`sfs view {} deep.sfs` on a spectrum with {n} axes (3/1/1/...)", if case.project { "--project-shape 3,1,1,... (identity)" } else { "-m 1" });
    ensure!(!run.stderr_str().contains("overflowed its stack"), "{what}: stack overflow: {}", cli::cut(&run.describe(), 300));
    let mut pass = Pass::new();
    let ex = judge(ctx, &run, &what)?;
    finish(&mut pass, ex, &run);
    if run.ok() {
        ensure!(run.stdout_str().trim_end().ends_with("1.000000 2.000000 3.000000"), "{what}: unexpected values: {}", cli::cut(&run.stdout_str()[run.stdout_str().len().saturating_sub(80)..], 100));
    }
    Ok(pass)
}

#[derive(Clone, Debug, Serialize, Deserialize)]
pub struct ManyPopsCase {
    pub n: usize,
    pub project: bool,
}

fn eval_many_pops(ctx: &Ctx, case: &ManyPopsCase) -> Verdict {
    let dir = ctx.worker_dir(crate::engine::worker_id());
    let n = case.n;
    let template = crate::props::c10::fresh_record(n);
    let cs = CallSet {
        contigs: vec!["ctgP7".into()],
        samples: (0..n).map(|i| format!("p{i}")).collect(),
        records: vec![crate::gen::callset::Record { pos: 5, ..template }],
    };
    std::fs::write(dir.join("pops.vcf"), cs.to_vcf()).expect("write");
    std::fs::write(dir.join("pops.samples"), (0..n).map(|i| format!("p{i}\tpop{i}\n")).collect::<String>()).expect("write");
    let mut argv: Vec<String> = vec!["create".into(), "-S".into(), "pops.samples".into()];
    if case.project {
        argv.push("--project-shape".into());
        argv.push(vec!["2"; n].join(","));
    }
    argv.push("pops.vcf".into());
    let run = cli::sfs(ctx, &argv, Input::Null, &dir);
    let mut pass = Pass::new();
    let ex = judge(ctx, &run, &format!("`sfs {}` with {n} populations of one sample each", cli::cut(&argv.join(" "), 120)))?;
    finish(&mut pass, ex, &run);
    pass.add_label(format!("populations={n}"));
    Ok(pass)
}

fn eval_absurd(ctx: &Ctx, case: &AbsurdCase) -> Verdict {
    let dir = ctx.worker_dir(crate::engine::worker_id());
    std::fs::write(dir.join(&case.name), &case.content).expect("write");
    let mut pass = Pass::new();
    for c in [vec!["view"], vec!["view", "--mask-monomorphic", "-n"], vec!["view", "-O", "npy"], vec!["fold"], vec!["stat", "-s", "sum"], vec!["stat", "-s", "s"], vec!["stat", "-s", "pi"], vec!["stat", "-s", "f2"], vec!["stat", "-s", "king"], vec!["stat", "-s", "r1,r0"], vec!["stat", "-s", "fst"], vec!["stat", "-s", "f3"], vec!["stat", "-s", "f4,pi-xy"], vec!["stat", "-s", "d-fu-li,d-tajima,theta"], vec!["view", "-m", "0"], vec!["view", "-p", "1"]] {
        let mut argv: Vec<String> = c.iter().map(|s| s.to_string()).collect();
        argv.push(case.name.clone());
        let run = cli::sfs(ctx, &argv, Input::Null, &dir);
        let ex = judge(ctx, &run, &format!("`sfs {}` on {:?}", argv.join(" "), cli::cut(&String::from_utf8_lossy(&case.content), 100)))?;
        finish(&mut pass, ex, &run);
    }
    Ok(pass)
}

// ---------------------------------------------------------------------------------------------
// size sweep across table / buffer edges, and BCF records contradicting their header

#[derive(Clone, Debug, Serialize, Deserialize)]
pub struct SizeCase {
    /// entries of a one-axis spectrum (chromosomes + 1), or samples of a call set when `callset`
    pub size: usize,
    pub callset: bool,
}

fn eval_size(ctx: &Ctx, case: &SizeCase) -> Verdict {
    let dir = ctx.worker_dir(crate::engine::worker_id());
    let mut pass = Pass::new();
    let mut cmds: Vec<Vec<String>> = Vec::new();
    if case.callset {
        let n = case.size;
        let rec = |pos: u64, k: usize| crate::gen::callset::Record {
            pos,
            gts: (0..n).map(|i| if (i + k) % 9 == 0 { crate::gen::callset::Gt::diploid(None, None, false) } else { crate::gen::callset::Gt::diploid(Some((i % 2) as u8), Some(((i / 2 + k) % 2) as u8), false) }).collect(),
            ..crate::props::c10::fresh_record(n)
        };
        let cs = CallSet {
            contigs: vec!["ctgS7".into()],
            samples: (0..n).map(|i| format!("smp{i}")).collect(),
            records: vec![rec(1, 0), rec(2, 1), rec(3, 4)],
        };
        std::fs::write(dir.join("size.vcf"), cs.to_vcf()).expect("write");
        for p in [1usize, n / 4, n / 2, n.saturating_sub(1).max(1), n] {
            cmds.push(vec!["create".into(), "-p".into(), p.to_string(), "size.vcf".into()]);
        }
        cmds.push(vec!["create".into(), "size.vcf".into()]);
    } else {
        let n = case.size;
        let spec = Spec::new(vec![n], (0..n).map(|i| ((i * 7 + 3) % 11) as f64).collect());
        write_spectrum(&dir, "size.sfs", &spec, false);
        cmds.push(vec!["stat".into(), "-s".into(), "pi,theta,d-tajima,d-fu-li,s,sum".into(), "size.sfs".into()]);
        for t in [1usize, 2, n / 3 + 1, n / 2 + 1, n - 1, n] {
            cmds.push(vec!["view".into(), "--project-shape".into(), t.max(1).to_string(), "size.sfs".into()]);
        }
        cmds.push(vec!["fold".into(), "size.sfs".into()]);
    }
    for c in cmds {
        let run = cli::sfs(ctx, &c, Input::Null, &dir);
        let ex = judge(ctx, &run, &format!("`sfs {}` at size {} ({})", c.join(" "), case.size, if case.callset { "samples" } else { "entries of a one-axis spectrum" }))?;
        finish(&mut pass, ex, &run);
    }
    Ok(pass)
}

#[derive(Clone, Debug, Serialize, Deserialize)]
pub struct BcfMismatchCase {
    pub header_samples: usize,
    pub record_samples: usize,
    pub bgzf: bool,
}

fn eval_bcf_mismatch(ctx: &Ctx, case: &BcfMismatchCase) -> Verdict {
    let dir = ctx.worker_dir(crate::engine::worker_id());
    let make = |n: usize| CallSet {
        contigs: vec!["ctgM7".into(), "ctgN8".into()],
        samples: (0..n).map(|i| format!("smp{i}")).collect(),
        records: (0..4u64).map(|k| crate::gen::callset::Record { contig: (k / 2) as usize, pos: 5 + k, fmt_dp: k % 2 == 0, ..crate::props::c10::fresh_record(n) }).collect(),
    };
    let header_cs = make(case.header_samples);
    let record_cs = make(case.record_samples);
    // header of one call set, internally consistent records of another
    let mut bytes = b"BCF\x02\x02".to_vec();
    let text = crate::gen::bcf::header_text(&header_cs);
    bytes.extend(((text.len() + 1) as u32).to_le_bytes());
    bytes.extend(text.as_bytes());
    bytes.push(0);
    for r in &record_cs.records {
        bytes.extend(crate::gen::bcf::record_bytes(&record_cs, r));
    }
    if case.bgzf {
        bytes = crate::gen::bgzf::compress(&bytes, &Layout::plain()).0;
    }
    std::fs::write(dir.join("mismatch.bcf"), &bytes).expect("write");
    let mut pass = Pass::new();
    for c in [vec!["create"], vec!["create", "-s", "smp0"], vec!["create", "--strict"], vec!["create", "-p", "1"], vec!["create", "-s", "smp0=A,smp1=B"], vec!["create", "-t", "1", "-vv"]] {
        let mut argv: Vec<String> = c.iter().map(|s| s.to_string()).collect();
        argv.push("mismatch.bcf".into());
        let run = cli::sfs(ctx, &argv, Input::Null, &dir);
        let ex = judge(ctx, &run, &format!("`sfs {}` on a BCF whose header names {} samples while every record carries {}", argv.join(" "), case.header_samples, case.record_samples))?;
        finish(&mut pass, ex, &run);
    }
    Ok(pass)
}

// ---------------------------------------------------------------------------------------------
// reserved values (missing / end-of-vector / reserved) planted in FORMAT fields other than GT

#[derive(Clone, Debug, Serialize, Deserialize)]
pub struct ReservedCase {
    /// 0 = int8 field (DP), 1 = int16 vector (XL), 2 = float (XB)
    pub field: u8,
    /// index into the list of reserved bit patterns of that type
    pub value: u8,
    pub bgzf: bool,
}

fn eval_reserved(ctx: &Ctx, case: &ReservedCase) -> Verdict {
    let dir = ctx.worker_dir(crate::engine::worker_id());
    let cs = (2..40)
        .map(|n| CallSet {
            contigs: vec!["ctgR7".into()],
            samples: (0..3).map(|i| format!("s{i}")).collect(),
            records: (0..n as u64).map(|k| crate::gen::callset::Record { pos: 3 + k, fmt_dp: true, info: 8 | 32, ..crate::props::c10::fresh_record(3) }).collect(),
        })
        .find(|cs| !crate::gen::bcf::wide_dictionary(cs))
        .expect("a call set with the narrow dictionary");
    let (mut raw, offsets) = crate::gen::bcf::to_bcf(&cs);
    let r = &cs.records[0];
    let end = if offsets.len() > 1 { offsets[1] } else { raw.len() };
    let rec = offsets[0]..end;
    // locate the field's first sample value inside the first record and overwrite it
    let (pattern, replacement): (Vec<u8>, Vec<u8>) = match case.field {
        0 => {
            let dp: Vec<u8> = (0..3).map(|i| (5 + (i as u64 + r.pos) % 30) as u8).collect();
            let mut pat = vec![0x11u8];
            pat.extend(&dp);
            let v = [0x80u8, 0x81, 0x82, 0x83, 0x87][case.value as usize % 5];
            (pat.clone(), vec![0x11, v, dp[1], dp[2]])
        }
        1 => {
            let pl = r.pl_of(0);
            let pat: Vec<u8> = pl.iter().flat_map(|v| (*v as i16).to_le_bytes()).collect();
            let v: u16 = [0x8000u16, 0x8001, 0x8002, 0x8003, 0x8007][case.value as usize % 5];
            let mut rep = pat.clone();
            rep[2..4].copy_from_slice(&v.to_le_bytes());
            (pat, rep)
        }
        _ => {
            let mut pat = vec![0x15u8];
            pat.extend(r.ab_of(0).to_le_bytes());
            let v: u32 = [0x7f80_0001u32, 0x7f80_0002, 0x7f80_0003, 0x7f80_0007, 0x7fc0_0000][case.value as usize % 5];
            let mut rep = vec![0x15u8];
            rep.extend(v.to_le_bytes());
            (pat, rep)
        }
    };
    if case.field >= 3 {
        // the other value classes: a FORMAT field appended by hand to the first record (GT only) --
        // int8 vector, int16 scalar, int32 scalar, int32 vector, float vector -- one of whose values
        // is a reserved bit pattern
        let plain = CallSet {
            records: cs.records.iter().map(|r| crate::gen::callset::Record { fmt_dp: false, info: 0, ..r.clone() }).collect(),
            ..cs.clone()
        };
        let (mut raw, offsets) = crate::gen::bcf::to_bcf(&plain);
        let start = offsets[0];
        let end = if offsets.len() > 1 { offsets[1] } else { raw.len() };
        let v = case.value as usize % 5;
        let (key, field): (i32, Vec<u8>) = match case.field {
            3 => (crate::gen::bcf::extra_idx(&plain, 0), {
                let mut f = vec![0x21u8];
                f.extend([1u8, 2, [0x80u8, 0x81, 0x82, 0x83, 0x87][v], 4, 5, 6]);
                f
            }),
            4 => (crate::gen::bcf::extra_idx(&plain, 0), {
                let mut f = vec![0x12u8];
                for x in [300u16, [0x8000u16, 0x8001, 0x8002, 0x8003, 0x8007][v], 301] {
                    f.extend(x.to_le_bytes());
                }
                f
            }),
            5 => (crate::gen::bcf::extra_idx(&plain, 0), {
                let mut f = vec![0x13u8];
                for x in [70_000u32, [0x8000_0000u32, 0x8000_0001, 0x8000_0002, 0x8000_0003, 0x8000_0007][v], 70_001] {
                    f.extend(x.to_le_bytes());
                }
                f
            }),
            6 => (crate::gen::bcf::extra_idx(&plain, 0), {
                let mut f = vec![0x23u8];
                for x in [70_000u32, 5, [0x8000_0000u32, 0x8000_0001, 0x8000_0002, 0x8000_0003, 0x8000_0007][v], 6, 7, 8] {
                    f.extend(x.to_le_bytes());
                }
                f
            }),
            _ => (crate::gen::bcf::extra_idx(&plain, 2), {
                let mut f = vec![0x25u8];
                for x in [0x3e80_0000u32, 0x3f00_0000, [0x7f80_0001u32, 0x7f80_0002, 0x7f80_0003, 0x7f80_0007, 0x7fc0_0000][v], 0x3f00_0000, 0x3e80_0000, 0x3f40_0000] {
                    f.extend(x.to_le_bytes());
                }
                f
            }),
        };
        let mut appended = Vec::new();
        crate::gen::bcf::typed_int(key, &mut appended);
        appended.extend(field);
        // l_indiv grows, n_fmt (top byte of the sixth u32 of the shared block) goes from 1 to 2
        let l_indiv = u32::from_le_bytes([raw[start + 4], raw[start + 5], raw[start + 6], raw[start + 7]]) + appended.len() as u32;
        raw[start + 4..start + 8].copy_from_slice(&l_indiv.to_le_bytes());
        raw[start + 8 + 23] += 1;
        let tail = raw.split_off(end);
        raw.extend(appended);
        raw.extend(tail);
        let bytes = if case.bgzf { crate::gen::bgzf::compress(&raw, &Layout::plain()).0 } else { raw };
        std::fs::write(dir.join("reserved.bcf"), &bytes).expect("write");
        let mut pass = Pass::new();
        for c in [vec!["create"], vec!["create", "-s", "s1,s2"]] {
            let mut argv: Vec<String> = c.iter().map(|s| s.to_string()).collect();
            argv.push("reserved.bcf".into());
            let run = cli::sfs(ctx, &argv, Input::Null, &dir);
            let ex = judge(ctx, &run, &format!("`sfs {}` on a BCF whose appended {} field carries the reserved bit pattern no. {}", argv.join(" "), ["", "", "", "int8 vector", "int16 scalar", "int32 scalar", "int32 vector", "float vector"][case.field as usize % 8], case.value))?;
            finish(&mut pass, ex, &run);
        }
        return Ok(pass);
    }
    let at = raw[rec.clone()].windows(pattern.len()).position(|w| w == pattern.as_slice()).map(|p| p + rec.start);
    let Some(at) = at else {
        fail!("harness bug: field {} not found in the encoded record", case.field);
    };
    raw[at..at + replacement.len()].copy_from_slice(&replacement);
    let bytes = if case.bgzf { crate::gen::bgzf::compress(&raw, &Layout::plain()).0 } else { raw };
    std::fs::write(dir.join("reserved.bcf"), &bytes).expect("write");
    let mut pass = Pass::new();
    for c in [vec!["create"], vec!["create", "-s", "s1,s2"], vec!["create", "-p", "1"]] {
        let mut argv: Vec<String> = c.iter().map(|s| s.to_string()).collect();
        argv.push("reserved.bcf".into());
        let run = cli::sfs(ctx, &argv, Input::Null, &dir);
        let ex = judge(ctx, &run, &format!("`sfs {}` on a BCF whose {} field carries the reserved bit pattern no. {}", argv.join(" "), ["int8 FORMAT DP", "int16 FORMAT XL", "float FORMAT XB"][case.field as usize % 3], case.value))?;
        finish(&mut pass, ex, &run);
    }
    Ok(pass)
}

// ---------------------------------------------------------------------------------------------
// hostile dictionary indices in a BCF header

#[derive(Clone, Debug, Serialize, Deserialize)]
pub struct BcfIdxCase {
    /// which header line gets the value: 0 = FORMAT GT, 1 = first contig, 2 = INFO DP, 3 = FILTER q10
    pub line: u8,
    pub idx: String,
    pub bgzf: bool,
}

fn eval_bcf_idx(ctx: &Ctx, case: &BcfIdxCase) -> Verdict {
    let dir = ctx.worker_dir(crate::engine::worker_id());
    // a size for which the encoder writes explicit IDX attributes and the narrow dictionary
    let cs = (2..40)
        .map(|n| CallSet {
            contigs: vec!["ctgI7".into(), "ctgJ8".into()],
            samples: (0..3).map(|i| format!("s{i}")).collect(),
            records: (0..n as u64).map(|k| crate::gen::callset::Record { pos: 3 + k, ..crate::props::c10::fresh_record(3) }).collect(),
        })
        .find(|cs| !crate::gen::bcf::implicit_dictionary(cs) && !crate::gen::bcf::wide_dictionary(cs))
        .expect("a call set with explicit IDX attributes");
    let text = crate::gen::bcf::header_text(&cs);
    let needle = ["ID=GT,", "##contig=<ID=ctgI7,", "##INFO=<ID=DP,", "##FILTER=<ID=q10,"][case.line as usize % 4];
    let mut out = String::new();
    for line in text.lines() {
        if line.contains(needle) {
            let cut = line.rfind(",IDX=").expect("explicit IDX");
            out.push_str(&format!("{},IDX={}>", &line[..cut], case.idx));
        } else {
            out.push_str(line);
        }
        out.push('\n');
    }
    let mut bytes = b"BCF\x02\x02".to_vec();
    bytes.extend(((out.len() + 1) as u32).to_le_bytes());
    bytes.extend(out.as_bytes());
    bytes.push(0);
    for r in &cs.records {
        bytes.extend(crate::gen::bcf::record_bytes(&cs, r));
    }
    if case.bgzf {
        bytes = crate::gen::bgzf::compress(&bytes, &Layout::plain()).0;
    }
    std::fs::write(dir.join("idx.bcf"), &bytes).expect("write");
    let mut pass = Pass::new();
    for c in [vec!["create"], vec!["create", "-s", "s0,s1"], vec!["create", "--strict", "-p", "1"]] {
        let mut argv: Vec<String> = c.iter().map(|s| s.to_string()).collect();
        argv.push("idx.bcf".into());
        let run = cli::sfs(ctx, &argv, Input::Null, &dir);
        let ex = judge(ctx, &run, &format!("`sfs {}` on a BCF whose header line `{needle}..` carries IDX={}", argv.join(" "), case.idx))?;
        finish(&mut pass, ex, &run);
    }
    Ok(pass)
}

// ---------------------------------------------------------------------------------------------
// raw saved inputs (regressions found by surveys, thorough runs and fuzz campaigns)

#[derive(Clone, Debug, Serialize, Deserialize)]
pub struct RawCase {
    pub argv: Vec<String>,
    pub input_hex: String,
}

fn eval_raw(ctx: &Ctx, case: &RawCase) -> Verdict {
    let dir = ctx.worker_dir(crate::engine::worker_id());
    let bytes: Vec<u8> = (0..case.input_hex.len() / 2).filter_map(|i| u8::from_str_radix(&case.input_hex[2 * i..2 * i + 2], 16).ok()).collect();
    std::fs::write(dir.join("raw.bin"), &bytes).expect("write");
    let mut argv = case.argv.clone();
    argv.push("raw.bin".into());
    let run = cli::sfs(ctx, &argv, Input::Null, &dir);
    let mut pass = Pass::new();
    let ex = judge(ctx, &run, &format!("`sfs {}` on a saved {}-byte input", argv.join(" "), bytes.len()))?;
    finish(&mut pass, ex, &run);
    Ok(pass)
}

pub fn check(ctx: &Ctx) -> Check {
    cli::CAP_ADDRESS_SPACE.store(true, std::sync::atomic::Ordering::Relaxed);
    let parts: Vec<Box<dyn Part>> = vec![
        Box::new(EnumPart {
            name: "g1-statistic-x-shape",
            rule: "FULL grid statistic (14, each alone, plus all at once with header) x shape (1..4 axes, lengths 1..4: 340 shapes) x {text, npy} input, plus all-zero values for every shape in text; oracle for every family: exit 0, or non-zero with a diagnostic; never exit 101, a signal or `panicked at`; non-trivial = the run got past argument parsing; distinct by (shape, input format)",
            exhaustive: true,
            cases: Box::new(|_| {
                let mut v = Vec::new();
                for shape in all_shapes(4, 1, 4) {
                    v.push(GridCase { shape: shape.clone(), npy: false, zero_values: false });
                    v.push(GridCase { shape: shape.clone(), npy: true, zero_values: false });
                    v.push(GridCase { shape, npy: false, zero_values: true });
                }
                v
            }),
            eval: Box::new(eval_grid),
        }),
        Box::new(EnumPart {
            name: "g2-fold-and-view-options",
            rule: "fold (4 fills) and every single view option on the same 340 shapes with arguments at and beyond their bounds: axes out of range / duplicated / all / usize::MAX, every ordered pair and triple of distinct axes, targets 0 / equal / smaller / larger / wrong rank / 10^12 / usize::MAX, -p values whose 2i+1 overflows",
            exhaustive: true,
            cases: Box::new(|_| all_shapes(4, 1, 4).into_iter().enumerate().map(|(i, shape)| OptionCase { shape, npy: i % 2 == 1 }).collect()),
            eval: Box::new(eval_options),
        }),
        Box::new(EnumPart {
            name: "g3-g4-arguments",
            rule: "precision values {0, 1, 17, 18, 1000, 65535, 65536, 2^32, 2^64-1, 2^64, -1, abc, ''} on every subcommand, thread values up to 5 (the address-space cap of this check makes larger pools fail to spawn; thread counts are C12's subject), create projection arguments up to 2^63, sample lists with duplicates (equal and conflicting labels), unknown and empty names, several '=', non-ASCII; samples files: empty, blank lines, duplicates, CRLF, extra columns; missing files and directories as input/output",
            exhaustive: true,
            cases: Box::new(|_| arg_cases()),
            eval: Box::new(eval_args),
        }),
        Box::new(EnumPart {
            name: "hostile-gt-values",
            rule: "a valid two-sample VCF whose second record carries a hostile GT value (non-ASCII, empty alleles, dangling separators, allele numbers beyond u32/u64, signs, spaces, NUL, 32-ploid, extra subfields) under FORMAT GT / GT:DP / DP:GT, through 5 create command lines",
            exhaustive: true,
            cases: Box::new(|_| gt_value_cases()),
            eval: Box::new(eval_gt_value),
        }),
        Box::new(EnumPart {
            name: "absurd-shapes",
            rule: "valid small spectra of every shape with <=3 axes over lengths {1,2,3,9} and 4 axes over {1,3} (entry counts that coincide with what a statistic expects -- 9, 27, 81 -- in shapes that do not: 9/1, 1/9, 3/3/1, ...) through all sixteen commands; text headers declaring 0-length axes, products beyond 2^64, 40 axes and 5 000 .. 40 000 axes of length 1, malformed headers (every order of the header's pieces `=`, `<`, `3`, `>`, doubled and dropped pieces); shapes sweeping every residue of the npy header length modulo 64; every tuple of <=3 axis lengths over {0,1,2,3,2^32,2^63,2^64-1} in text (399 x 3 bodies) and over {0,1,2,2^32,2^64-1} in npy (155 x 3 data lengths); npy dicts with 0 / huge / empty / duplicate shapes, header lengths 0 .. 2^32-1, unknown versions; each through 16 view/fold/stat commands (every statistic family, so that the diagnostics for a wrong dimensionality are built too)",
            exhaustive: true,
            cases: Box::new(|_| absurd_cases()),
            eval: Box::new(eval_absurd),
        }),
        Box::new(EnumPart {
            name: "g7-tiny-inputs-and-prefixes",
            rule: "every byte string of length 0..2 over a 12-byte alphabet (magic bytes of gzip, BCF, npy, text) and every prefix up to 64 bytes of the seed files, as spectrum input (view, fold, stat) and as call-set input (create), by path and on stdin",
            exhaustive: true,
            cases: Box::new(|_| tiny_cases()),
            eval: Box::new(eval_tiny),
        }),
        Box::new(EnumPart {
            name: "size-sweep",
            rule: "one-axis spectra with 160..180, 254..259, 339..344, 1022..1034 entries through stat (pi, theta, both D), every projection size class and fold; call sets of 84..90 and 170..174 samples through create with and without projection: sizes that cross the factorial table, f64 binomial overflow and power-of-two edges",
            exhaustive: true,
            cases: Box::new(|_| {
                let mut v = Vec::new();
                for n in (160..=180).chain(254..=259).chain(339..=344).chain(1022..=1034) {
                    v.push(SizeCase { size: n, callset: false });
                }
                for n in (84..=90).chain(170..=174) {
                    v.push(SizeCase { size: n, callset: true });
                }
                v
            }),
            eval: Box::new(eval_size),
        }),
        Box::new(EnumPart {
            name: "reserved-values-in-format-fields",
            rule: "a valid BCF (raw and BGZF) in which one value of a FORMAT field other than GT -- an int8 scalar, an int16 vector, a float as the generator writes them, and (appended by hand) an int8 vector, an int16 scalar, an int32 scalar, an int32 vector, a float vector -- is replaced by the type's missing / end-of-vector / reserved bit patterns (as htslib writes for missing values and padding, plus the reserved ones), through 3 create command lines",
            exhaustive: true,
            cases: Box::new(|_| {
                let mut v = Vec::new();
                for field in 0..8u8 {
                    for value in 0..5u8 {
                        for bgzf in [false, true] {
                            v.push(ReservedCase { field, value, bgzf });
                        }
                    }
                }
                v
            }),
            eval: Box::new(eval_reserved),
        }),
        Box::new(EnumPart {
            name: "very-many-axes",
            rule: "(thorough tier only: reading such a header is quadratic in the number of axes, ~20 s per run) a text spectrum with 150 000 axes, the first of length 3 and the rest of length 1, through the identity projection and through the removal of an axis: success or a diagnosed failure, not a stack overflow (iterators that carry their odometer by recursion need one stack frame per axis)",
            exhaustive: false,
            cases: Box::new(|ctx: &Ctx| {
                if ctx.tier == crate::engine::Tier::Thorough {
                    vec![DeepCase { axes: 150_000, project: true }, DeepCase { axes: 150_000, project: false }]
                } else {
                    vec![]
                }
            }),
            eval: Box::new(eval_deep),
        }),
        Box::new(EnumPart {
            name: "hostile-bcf-dictionary-index",
            rule: "BCF headers (raw and BGZF) whose IDX attribute on the FORMAT GT / contig / INFO / FILTER line is huge, negative, non-numeric, duplicated or sparse (2^64-1, 2^64, 2^32, 70000, -1, abc, empty, an index already taken), through 3 create command lines",
            exhaustive: true,
            cases: Box::new(|_| {
                let mut v = Vec::new();
                for line in 0..4u8 {
                    // (2^63 is left out: noodles resizes its table to IDX + 1 entries, which there is a capacity
                    // overflow inside std -- the same root cause as the open finding for 2^64-1, but a
                    // signature too generic to put on an allow-list)
                    for idx in ["18446744073709551615", "18446744073709551616", "4294967296", "70000", "-1", "abc", "", "0", "2"] {
                        v.push(BcfIdxCase { line, idx: idx.to_string(), bgzf: (line as usize + idx.len()) % 2 == 0 });
                    }
                }
                v
            }),
            eval: Box::new(eval_bcf_idx),
        }),
        Box::new(EnumPart {
            name: "many-populations",
            rule: "valid call sets of 20 .. 70 samples with every sample in a population of its own (a spectrum of 3^n cells: beyond the address-space cap from n = 17, beyond 2^64 from n = 41), with and without a projection to 1 chromosome per population (2^n cells): a diagnosed failure, the cap, or success -- never an arithmetic overflow",
            exhaustive: false,
            cases: Box::new(|_| {
                let mut v = Vec::new();
                for n in [20usize, 40, 41, 45, 64, 70] {
                    for project in [false, true] {
                        v.push(ManyPopsCase { n, project });
                    }
                }
                v
            }),
            eval: Box::new(eval_many_pops),
        }),
        Box::new(EnumPart {
            name: "bcf-header-record-mismatch",
            rule: "BCF streams (raw and BGZF) whose records are internally consistent but carry more or fewer samples than the header declares (0..6 vs 1..4), through 6 create command lines",
            exhaustive: true,
            cases: Box::new(|_| {
                let mut v = Vec::new();
                for h in 1..=4usize {
                    for r in 0..=6usize {
                        if h != r && r > 0 {
                            v.push(BcfMismatchCase { header_samples: h, record_samples: r, bgzf: (h + r) % 2 == 0 });
                        }
                    }
                }
                v
            }),
            eval: Box::new(eval_bcf_mismatch),
        }),
        Box::new(EnumPart {
            name: "saved-inputs",
            rule: "raw inputs saved from surveys, thorough runs and fuzz campaigns (regressions/C17/*.json with part saved-inputs); nothing is enumerated here beyond those files",
            exhaustive: false,
            cases: Box::new(|_| Vec::<RawCase>::new()),
            eval: Box::new(eval_raw),
        }),
        Box::new(RandomPart {
            name: "g5-mutated-spectra",
            rule: "1..3 mutations (bit flip, byte set, delete, insert, duplicate, truncate, splice of two seeds, hostile token replacement: huge / negative / non-numeric numbers, u32 overwrite) applied to text and npy seed files (all dtypes, versions), through 15 view/fold/stat command lines, by path or stdin",
            cases: ctx.tier.pick(4000, 60_000),
            strategy: Box::new(|| mut_strategy().boxed()),
            eval: Box::new(eval_mut_spectrum),
        }),
        Box::new(RandomPart {
            name: "g6-mutated-callsets",
            rule: "the same mutators on call-set seeds in all four containers (plain VCF, BGZF VCF one line per block, BGZF BCF with stored blocks so that mutations reach the BCF structure, raw BCF), through 8 create command lines, by path or stdin",
            cases: ctx.tier.pick(2000, 60_000),
            strategy: Box::new(|| mut_strategy().boxed()),
            eval: Box::new(eval_mut_callset),
        }),
    ];
    let _ = splitmix64;
    let mut parts = parts;
    parts.push(Box::new(crate::fuzzrun::FuzzPart {
        name: "libfuzzer-fz_spectrum",
        target: "fz_spectrum",
        rule: "coverage-guided (libFuzzer + ASan): bytes -> file -> auto-detecting reader -> fold, all 14 statistics, every marginalization, a projection, normalize, write both formats, re-read; no panic, and the accepted spectrum obeys mass / shape / round-trip invariants",
        runs: ctx.tier.pick(0, 2_000_000),
        max_len: 1024,
        seeds: Box::new(|_| spectrum_seeds()),
    }));
    parts.push(Box::new(crate::fuzzrun::FuzzPart {
        name: "libfuzzer-fz_create",
        target: "fz_create",
        rule: "coverage-guided (libFuzzer + ASan): 4 configuration bytes + input bytes -> hooked genotype reader builder (detection included) -> site reader loop with a sample map and optional projection; no panic other than allow-listed dependency panics, count indices inside the spectrum, total weight one per counted site",
        runs: ctx.tier.pick(0, 1_000_000),
        max_len: 4096,
        seeds: Box::new(|_| {
            callset_seeds()
                .into_iter()
                .enumerate()
                .map(|(i, (bytes, _))| {
                    let mut v = vec![0u8, (i % 4) as u8, (i % 3) as u8, 0];
                    v.extend(bytes);
                    v
                })
                .filter(|b| b.len() <= 4096)
                .collect()
        }),
    }));
    parts.push(Box::new(crate::fuzzrun::FuzzPart {
        name: "libfuzzer-fz_npy",
        target: "fz_npy",
        rule: "coverage-guided (libFuzzer + ASan): bytes -> Array::read_npy, no panic",
        runs: ctx.tier.pick(0, 1_000_000),
        max_len: 2048,
        seeds: Box::new(|_| crate::props::c15::npy_fuzz_seeds()),
    }));
    Check {
        parts,
        level: "exploration",
        assumptions: vec![
            "the binary is built in the dev profile (overflow checks and debug assertions on, opt-level 2): arithmetic overflow shows as a panic",
            "thread counts are capped at 64, the child address space at 512 MiB and header lengths at 2^32-1 to protect the sandbox; a timeout is inconclusive, not a violation",
            "known dependency panics are excluded by exact signature (crate-relative file:line:message) and counted",
        ],
        post: None,
    }
}
