//! libFuzzer campaigns as a `Part`: builds the cargo-fuzz target (nightly, ASan), seeds a fresh
//! corpus, runs N executions split over worker processes with pinned seeds, and turns a crash
//! artifact into a violation whose replay runs the same target body in-process.

use std::{path::PathBuf, process::Command};

use serde_json::{json, Value};

use crate::{
    engine::{hash_str, Ctx, Failure, Part, PartStats, Verdict, Violation},
    fuzz,
};

pub struct FuzzPart {
    pub name: &'static str,
    pub target: &'static str,
    pub rule: &'static str,
    /// total executions (0 = no campaign in this tier; regressions are still replayed)
    pub runs: u64,
    pub max_len: usize,
    pub seeds: Box<dyn Fn(&Ctx) -> Vec<Vec<u8>> + Sync>,
}

fn hex(bytes: &[u8]) -> String {
    bytes.iter().map(|b| format!("{b:02x}")).collect()
}

fn unhex(s: &str) -> Vec<u8> {
    (0..s.len() / 2).filter_map(|i| u8::from_str_radix(&s[2 * i..2 * i + 2], 16).ok()).collect()
}

impl FuzzPart {
    fn binary(&self, ctx: &Ctx) -> PathBuf {
        ctx.verif_dir.join("target/fuzz/x86_64-unknown-linux-gnu/release").join(self.target)
    }

    fn build(&self, ctx: &Ctx) -> Result<(), String> {
        let out = Command::new("cargo")
            .args(["+nightly", "fuzz", "build", "--fuzz-dir"])
            .arg(ctx.verif_dir.join("fuzz"))
            .arg("--target-dir")
            .arg(ctx.verif_dir.join("target/fuzz"))
            .arg(self.target)
            .env("CARGO_NET_OFFLINE", "true")
            .env("VERIF_REPO", &ctx.repo)
            .output()
            .map_err(|e| format!("cannot run cargo fuzz: {e}"))?;
        if out.status.success() {
            Ok(())
        } else {
            let err = String::from_utf8_lossy(&out.stderr);
            Err(format!("cargo fuzz build failed: {}", err.lines().rev().take(15).collect::<Vec<_>>().into_iter().rev().collect::<Vec<_>>().join("\n")))
        }
    }
}

impl Part for FuzzPart {
    fn name(&self) -> String {
        self.name.to_string()
    }

    fn run(&self, ctx: &Ctx) -> (PartStats, Option<Violation>) {
        let mut stats = PartStats {
            name: self.name.to_string(),
            rule: self.rule.to_string(),
            ..Default::default()
        };
        if self.runs == 0 {
            stats.rule = format!("{} (no campaign in the quick tier; committed crash inputs are replayed through the same target body)", self.rule);
            return (stats, None);
        }
        if let Err(e) = self.build(ctx) {
            ctx.note_inconclusive(format!("{}: {e}", self.name));
            return (stats, None);
        }
        let procs = ctx.jobs.clamp(1, 16);
        let per = (self.runs / procs as u64).max(1);
        let base = ctx.work.join(format!("fz-{}", self.target));
        let _ = std::fs::remove_dir_all(&base);
        let seeds = (self.seeds)(ctx);
        let bin = self.binary(ctx);
        let mut children = Vec::new();
        for w in 0..procs {
            let dir = base.join(format!("w{w}"));
            let corpus = dir.join("corpus");
            let artifacts = dir.join("artifacts");
            std::fs::create_dir_all(&corpus).expect("corpus dir");
            std::fs::create_dir_all(&artifacts).expect("artifact dir");
            for (i, s) in seeds.iter().enumerate() {
                std::fs::write(corpus.join(format!("seed-{i:04}")), s).expect("seed");
            }
            let seed = (ctx.seed.wrapping_mul(1000).wrapping_add(w as u64) % 0xffff_fffe) + 1;
            let log = std::fs::File::create(dir.join("log.txt")).expect("log");
            let child = Command::new(&bin)
                .arg(format!("-runs={per}"))
                .arg(format!("-seed={seed}"))
                .arg("-len_control=0")
                .arg(format!("-max_len={}", self.max_len))
                .arg("-rss_limit_mb=6000")
                .arg("-malloc_limit_mb=1000000")
                .arg("-timeout=60")
                .arg("-print_final_stats=1")
                .arg(format!("-artifact_prefix={}/", artifacts.display()))
                .arg(&corpus)
                .current_dir(&dir)
                .env("VERIF_KNOWN_FINDINGS", ctx.verif_dir.join("known_findings.txt"))
                .env("RUST_BACKTRACE", "0")
                .stdout(std::process::Stdio::null())
                .stderr(log)
                .spawn();
            match child {
                Ok(c) => children.push((w, dir, c)),
                Err(e) => ctx.note_inconclusive(format!("{}: cannot start {}: {e}", self.name, bin.display())),
            }
        }
        let mut violation = None;
        let mut units: std::collections::HashSet<u64> = std::collections::HashSet::new();
        for (w, dir, mut child) in children {
            let status = child.wait();
            let log = std::fs::read_to_string(dir.join("log.txt")).unwrap_or_default();
            let executed = log
                .lines()
                .find_map(|l| l.strip_prefix("stat::number_of_executed_units:").map(|v| v.trim().parse::<u64>().unwrap_or(0)))
                .or_else(|| log.lines().rev().find_map(|l| l.strip_prefix("Done ").and_then(|r| r.split(' ').next()).and_then(|n| n.parse().ok())))
                .unwrap_or(0);
            stats.evaluations += executed;
            *stats.counters.entry("executions".into()).or_default() += executed;
            if let Ok(rd) = std::fs::read_dir(dir.join("corpus")) {
                for e in rd.flatten() {
                    if !e.file_name().to_string_lossy().starts_with("seed-") {
                        if let Ok(bytes) = std::fs::read(e.path()) {
                            let key = hash_str(&hex(&bytes));
                            if units.insert(key) && stats.samples.len() < 3 {
                                stats.samples.push(json!({"target": self.target, "corpus_unit_hex_prefix": hex(&bytes[..bytes.len().min(96)]), "length": bytes.len()}));
                            }
                        }
                    }
                }
            }
            let artifacts: Vec<PathBuf> = std::fs::read_dir(dir.join("artifacts")).map(|rd| rd.flatten().map(|e| e.path()).collect()).unwrap_or_default();
            let crashed = !matches!(&status, Ok(s) if s.success());
            if crashed || !artifacts.is_empty() {
                let timeout_or_oom = artifacts.iter().all(|a| {
                    let n = a.file_name().unwrap().to_string_lossy().into_owned();
                    n.starts_with("timeout-") || n.starts_with("oom-") || n.starts_with("slow-unit-")
                });
                if !artifacts.is_empty() && timeout_or_oom {
                    ctx.note_inconclusive(format!("{}: worker {w} stopped on a libFuzzer timeout/oom unit (resource limit, not a violation)", self.name));
                    continue;
                }
                if violation.is_none() {
                    let input = artifacts.first().and_then(|a| std::fs::read(a).ok());
                    let tail: Vec<&str> = log.lines().filter(|l| l.contains("VIOLATION") || l.contains("panicked at") || l.contains("ERROR")).take(6).collect();
                    match input {
                        Some(bytes) => {
                            violation = Some(Violation {
                                part: self.name.to_string(),
                                case: json!({"target": self.target, "input_hex": hex(&bytes)}),
                                failure: Failure::new(format!("libFuzzer target {} crashed on a {}-byte input: {}", self.target, bytes.len(), tail.join(" | "))),
                            });
                        }
                        None => ctx.note_inconclusive(format!("{}: worker {w} ended abnormally without an artifact: {}", self.name, tail.join(" | "))),
                    }
                }
            }
        }
        for k in units {
            stats.nontrivial_keys.insert(k);
        }
        let _ = std::fs::remove_dir_all(&base);
        (stats, violation)
    }

    fn replay(&self, ctx: &Ctx, case: &Value) -> Verdict {
        let bytes = unhex(case["input_hex"].as_str().unwrap_or(""));
        if ctx.strict {
            std::env::set_var("VERIF_FUZZ_STRICT", "1");
        }
        match fuzz::run_target(self.target, &bytes) {
            Ok(()) => Ok(crate::engine::Pass::new().nontrivial(true).label("regression-input")),
            Err(e) => Err(Failure::new(format!("fuzz target {} on the saved {}-byte input: {e}", self.target, bytes.len()))),
        }
    }
}
