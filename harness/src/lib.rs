//! Verification harness for malthesr/sfs: property-based testing and fuzzing (see /verif/DESIGN.md).
#![allow(clippy::type_complexity, clippy::too_many_arguments)]

#[macro_use]
pub mod engine;
pub mod cli;
pub mod findings;
pub mod fuzz;
pub mod fuzzrun;
pub mod gen;
pub mod model;
pub mod props;
