use std::{
    path::PathBuf,
    sync::{atomic::AtomicU64, Mutex},
};

use verif_core::{
    engine::{self, Ctx, Tier},
    findings::Findings,
    props,
};

fn usage() -> ! {
    eprintln!("usage: sfsverif <property> quick|thorough | sfsverif <property> --replay <path> | sfsverif selftest");
    std::process::exit(2);
}

fn main() {
    let args: Vec<String> = std::env::args().skip(1).collect();
    if args.is_empty() {
        usage();
    }
    let verif_dir = PathBuf::from(std::env::var("VERIF_DIR").unwrap_or_else(|_| "/verif".into()));
    let repo = PathBuf::from(std::env::var("VERIF_REPO").unwrap_or_else(|_| "/repo".into()));
    let sfs_bin = PathBuf::from(
        std::env::var("VERIF_SFS_BIN").unwrap_or_else(|_| verif_dir.join("target/cli/debug/sfs").to_string_lossy().into_owned()),
    );
    let seed: u64 = std::env::var("VERIF_SEED").ok().and_then(|s| s.parse().ok()).unwrap_or(1);
    let jobs: usize = std::env::var("VERIF_JOBS").ok().and_then(|s| s.parse().ok()).unwrap_or(16);
    let work = verif_dir.join("work").join(format!("run-{}", std::process::id()));
    std::fs::create_dir_all(&work).expect("work dir");

    engine::install_panic_hook();

    let property = args[0].clone();
    let (tier, replay) = match args.get(1).map(|s| s.as_str()) {
        Some("quick") => (Tier::Quick, None),
        Some("thorough") => (Tier::Thorough, None),
        Some("--replay") => (Tier::Quick, Some(PathBuf::from(args.get(2).cloned().unwrap_or_else(|| usage())))),
        None if property == "selftest" => (Tier::Quick, None),
        _ => usage(),
    };
    let tier = match std::env::var("VERIF_TIER").ok().as_deref() {
        Some("quick") if replay.is_none() => Tier::Quick,
        Some("thorough") if replay.is_none() => Tier::Thorough,
        _ => tier,
    };

    let ctx = Ctx {
        property: property.clone(),
        tier,
        seed,
        jobs,
        verif_dir: verif_dir.clone(),
        repo,
        sfs_bin,
        work: work.clone(),
        findings: Findings::load(&verif_dir.join("known_findings.txt")),
        strict: replay.is_some(),
        subprocess_runs: AtomicU64::new(0),
        inconclusive: Mutex::new(Vec::new()),
    };

    let code = if property == "selftest" {
        props::selftest(&ctx)
    } else {
        props::run(&ctx, replay.as_deref())
    };
    let _ = std::fs::remove_dir_all(&work);
    std::process::exit(code);
}
