//! Engine: seeded parallel proptest runners, enumeration runners, shrinking, evidence, replay.
//!
//! A property is a list of *parts*. Each part is either random (a proptest strategy, a fixed
//! number of cases split over worker threads, each worker with its own seed derived from
//! VERIF_SEED) or enumerated (a finite list of cases evaluated completely). Every part evaluates
//! a case through a plain function `eval(&Ctx, &Case) -> Verdict`, which is also the replay path.

use std::{
    collections::{BTreeMap, HashSet},
    fmt::Debug,
    hash::{Hash, Hasher},
    panic::{self, AssertUnwindSafe},
    path::PathBuf,
    sync::{
        atomic::{AtomicBool, AtomicU64, Ordering},
        Mutex,
    },
    time::Instant,
};

use proptest::{
    strategy::{BoxedStrategy, Strategy, ValueTree},
    test_runner::{Config, RngAlgorithm, RngSeed, TestCaseError, TestError, TestRng, TestRunner},
};
use serde::{de::DeserializeOwned, Serialize};
use serde_json::{json, Value};

use crate::findings::Findings;

#[derive(Clone, Copy, Debug, PartialEq, Eq)]
pub enum Tier {
    Quick,
    Thorough,
}

impl Tier {
    pub fn pick<T>(self, quick: T, thorough: T) -> T {
        match self {
            Tier::Quick => quick,
            Tier::Thorough => thorough,
        }
    }
    pub fn name(self) -> &'static str {
        match self {
            Tier::Quick => "quick",
            Tier::Thorough => "thorough",
        }
    }
}

/// Run context shared by all parts of a check.
pub struct Ctx {
    pub property: String,
    pub tier: Tier,
    pub seed: u64,
    pub jobs: usize,
    pub verif_dir: PathBuf,
    pub repo: PathBuf,
    pub sfs_bin: PathBuf,
    pub work: PathBuf,
    pub findings: Findings,
    pub strict: bool,
    pub subprocess_runs: AtomicU64,
    pub inconclusive: Mutex<Vec<String>>,
}

impl Ctx {
    pub fn worker_dir(&self, worker: usize) -> PathBuf {
        let d = self.work.join(format!("w{worker}"));
        std::fs::create_dir_all(&d).expect("create worker dir");
        d
    }
    pub fn note_inconclusive(&self, what: String) {
        self.inconclusive.lock().unwrap().push(what);
    }
}

/// What evaluating one case established.
#[derive(Debug, Default, Clone)]
pub struct Pass {
    pub labels: Vec<String>,
    pub nontrivial: bool,
    /// Number of cases excluded because they match an open known finding (signature).
    pub excluded: Vec<String>,
    /// Extra counters (summed into the evidence).
    pub counters: Vec<(String, u64)>,
}

impl Pass {
    pub fn new() -> Self {
        Self::default()
    }
    pub fn label<S: Into<String>>(mut self, l: S) -> Self {
        self.labels.push(l.into());
        self
    }
    pub fn add_label<S: Into<String>>(&mut self, l: S) {
        self.labels.push(l.into());
    }
    pub fn nontrivial(mut self, b: bool) -> Self {
        self.nontrivial = b;
        self
    }
    pub fn count<S: Into<String>>(&mut self, k: S, n: u64) {
        self.counters.push((k.into(), n));
    }
}

#[derive(Debug, Clone)]
pub struct Failure {
    pub message: String,
    pub detail: Value,
}

impl Failure {
    pub fn new<S: Into<String>>(message: S) -> Self {
        Self {
            message: message.into(),
            detail: Value::Null,
        }
    }
    pub fn with(mut self, detail: Value) -> Self {
        self.detail = detail;
        self
    }
}

pub type Verdict = Result<Pass, Failure>;

#[macro_export]
macro_rules! fail {
    ($($arg:tt)*) => { return Err($crate::engine::Failure::new(format!($($arg)*))) };
}

#[macro_export]
macro_rules! ensure {
    ($cond:expr, $($arg:tt)*) => { if !($cond) { return Err($crate::engine::Failure::new(format!($($arg)*))); } };
}

/// Aggregated statistics of one part.
#[derive(Debug, Default)]
pub struct PartStats {
    pub name: String,
    pub evaluations: u64,
    pub nontrivial_keys: HashSet<u64>,
    pub labels: BTreeMap<String, u64>,
    pub excluded: BTreeMap<String, u64>,
    pub counters: BTreeMap<String, u64>,
    pub samples: Vec<Value>,
    pub exhaustive: bool,
    pub rule: String,
}

impl PartStats {
    fn merge(&mut self, other: PartStats) {
        self.evaluations += other.evaluations;
        self.nontrivial_keys.extend(other.nontrivial_keys);
        for (k, v) in other.labels {
            *self.labels.entry(k).or_default() += v;
        }
        for (k, v) in other.excluded {
            *self.excluded.entry(k).or_default() += v;
        }
        for (k, v) in other.counters {
            *self.counters.entry(k).or_default() += v;
        }
        for s in other.samples {
            if self.samples.len() < 4 {
                self.samples.push(s);
            }
        }
    }
    fn record<C: Serialize>(&mut self, case: &C, pass: &Pass) {
        self.evaluations += 1;
        for l in &pass.labels {
            *self.labels.entry(l.clone()).or_default() += 1;
        }
        for l in &pass.excluded {
            *self.excluded.entry(l.clone()).or_default() += 1;
        }
        for (k, n) in &pass.counters {
            *self.counters.entry(k.clone()).or_default() += n;
        }
        if pass.nontrivial {
            let enc = serde_json::to_string(case).unwrap_or_default();
            self.nontrivial_keys.insert(hash_str(&enc));
            if self.samples.len() < 2 {
                self.samples.push(truncate_json(serde_json::to_value(case).unwrap_or(Value::Null)));
            }
        }
    }
}

pub fn hash_str(s: &str) -> u64 {
    let mut h = std::collections::hash_map::DefaultHasher::new();
    s.hash(&mut h);
    h.finish()
}

/// Keep samples in the evidence readable: long strings / arrays are cut.
pub fn truncate_json(v: Value) -> Value {
    match v {
        Value::String(s) if s.len() > 400 => Value::String(format!("{}…[{} bytes]", &s[..s.char_indices().map(|(i, _)| i).take_while(|&i| i <= 400).last().unwrap_or(0)], s.len())),
        Value::Array(a) => {
            let n = a.len();
            let mut out: Vec<Value> = a.into_iter().take(24).map(truncate_json).collect();
            if n > 24 {
                out.push(Value::String(format!("…[{n} items]")));
            }
            Value::Array(out)
        }
        Value::Object(m) => Value::Object(m.into_iter().map(|(k, v)| (k, truncate_json(v))).collect()),
        other => other,
    }
}

#[derive(Debug)]
pub struct Violation {
    pub part: String,
    pub case: Value,
    pub failure: Failure,
}

/// One part of a property check.
pub trait Part: Sync {
    fn name(&self) -> String;
    fn run(&self, ctx: &Ctx) -> (PartStats, Option<Violation>);
    fn replay(&self, ctx: &Ctx, case: &Value) -> Verdict;
}

pub fn splitmix64(mut x: u64) -> u64 {
    x = x.wrapping_add(0x9E37_79B9_7F4A_7C15);
    let mut z = x;
    z = (z ^ (z >> 30)).wrapping_mul(0xBF58_476D_1CE4_E5B9);
    z = (z ^ (z >> 27)).wrapping_mul(0x94D0_49BB_1331_11EB);
    z ^ (z >> 31)
}

fn worker_seed(ctx: &Ctx, part: &str, worker: usize) -> [u8; 32] {
    let base = splitmix64(ctx.seed ^ hash_str(&format!("{}/{}", ctx.property, part)));
    let mut out = [0u8; 32];
    let mut x = base ^ (worker as u64).wrapping_mul(0xA24B_AED4_963E_E407);
    for chunk in out.chunks_mut(8) {
        x = splitmix64(x);
        chunk.copy_from_slice(&x.to_le_bytes());
    }
    out
}

thread_local! {
    pub static WORKER: std::cell::Cell<usize> = const { std::cell::Cell::new(0) };
    static LAST_PANIC: std::cell::RefCell<Option<String>> = const { std::cell::RefCell::new(None) };
    static GUARD_DEPTH: std::cell::Cell<usize> = const { std::cell::Cell::new(0) };
}

pub fn worker_id() -> usize {
    WORKER.with(|w| w.get())
}

/// Install a panic hook that records the panic (location + message) per thread and prints nothing.
pub fn install_panic_hook() {
    panic::set_hook(Box::new(|info| {
        let loc = info
            .location()
            .map(|l| format!("{}:{}", l.file(), l.line()))
            .unwrap_or_else(|| "?".into());
        let msg = if let Some(s) = info.payload().downcast_ref::<&str>() {
            s.to_string()
        } else if let Some(s) = info.payload().downcast_ref::<String>() {
            s.clone()
        } else {
            "<non-string panic payload>".into()
        };
        if GUARD_DEPTH.with(|d| d.get()) == 0 {
            // a panic outside `guard` is a bug in the harness itself: make it visible
            eprintln!("HARNESS PANIC at {loc}: {msg}");
        }
        LAST_PANIC.with(|p| *p.borrow_mut() = Some(format!("panicked at {loc}: {msg}")));
    }));
}

/// Run `f`, turning a panic into `Err(description)`.
pub fn guard<T>(f: impl FnOnce() -> T) -> Result<T, String> {
    GUARD_DEPTH.with(|d| d.set(d.get() + 1));
    let r = panic::catch_unwind(AssertUnwindSafe(f));
    GUARD_DEPTH.with(|d| d.set(d.get() - 1));
    match r {
        Ok(v) => Ok(v),
        Err(_) => Err(LAST_PANIC
            .with(|p| p.borrow_mut().take())
            .unwrap_or_else(|| "panicked (no message)".into())),
    }
}

fn eval_guarded<C>(ctx: &Ctx, eval: &(dyn Fn(&Ctx, &C) -> Verdict + Sync), case: &C) -> Verdict {
    match guard(|| eval(ctx, case)) {
        Ok(v) => v,
        Err(p) => Err(Failure::new(format!("unexpected panic while evaluating the case: {p}"))),
    }
}

/// Random part: a proptest strategy with a fixed number of cases.
pub struct RandomPart<C>
where
    C: Clone + Debug + Serialize + DeserializeOwned + Send,
{
    pub name: &'static str,
    pub rule: &'static str,
    pub cases: u64,
    /// Strategy factory: every worker thread builds its own strategy (BoxedStrategy is not Sync).
    pub strategy: Box<dyn Fn() -> BoxedStrategy<C> + Sync>,
    pub eval: Box<dyn Fn(&Ctx, &C) -> Verdict + Sync>,
}

impl<C> Part for RandomPart<C>
where
    C: Clone + Debug + Serialize + DeserializeOwned + Send + 'static,
{
    fn name(&self) -> String {
        self.name.to_string()
    }

    fn run(&self, ctx: &Ctx) -> (PartStats, Option<Violation>) {
        let jobs = ctx.jobs.max(1).min(self.cases.max(1) as usize);
        let per = self.cases / jobs as u64;
        let extra = self.cases % jobs as u64;
        let stop = AtomicBool::new(false);

        let results: Vec<(PartStats, Option<(C, Failure)>)> = std::thread::scope(|scope| {
            let handles: Vec<_> = (0..jobs)
                .map(|w| {
                    let stop = &stop;
                    let quota = per + if (w as u64) < extra { 1 } else { 0 };
                    scope.spawn(move || {
                        WORKER.with(|c| c.set(w));
                        let mut stats = PartStats::default();
                        if quota == 0 {
                            return (stats, None);
                        }
                        let config = Config {
                            cases: quota as u32,
                            failure_persistence: None,
                            max_shrink_iters: 4096,
                            max_shrink_time: 90_000,
                            max_global_rejects: 1 << 20,
                            max_local_rejects: 1 << 20,
                            rng_algorithm: RngAlgorithm::ChaCha,
                            rng_seed: RngSeed::Fixed(0),
                            ..Config::default()
                        };
                        let rng = TestRng::from_seed(RngAlgorithm::ChaCha, &worker_seed(ctx, self.name, w));
                        let mut runner = TestRunner::new_with_rng(config, rng);
                        let failed = std::cell::Cell::new(false);
                        let stats_cell = std::cell::RefCell::new(&mut stats);
                        let strategy = (self.strategy)();
                        let outcome = runner.run(&strategy, |case| {
                            if !failed.get() && stop.load(Ordering::Relaxed) {
                                // another worker already found a violation: finish quickly
                                return Ok(());
                            }
                            match eval_guarded(ctx, &*self.eval, &case) {
                                Ok(pass) => {
                                    if !failed.get() {
                                        stats_cell.borrow_mut().record(&case, &pass);
                                    }
                                    Ok(())
                                }
                                Err(f) => {
                                    if !failed.get() {
                                        stats_cell.borrow_mut().evaluations += 1;
                                    }
                                    failed.set(true);
                                    stop.store(true, Ordering::Relaxed);
                                    Err(TestCaseError::fail(f.message))
                                }
                            }
                        });
                        drop(stats_cell);
                        let violation = match outcome {
                            Ok(()) => None,
                            Err(TestError::Fail(_, minimal)) => {
                                let failure = match eval_guarded(ctx, &*self.eval, &minimal) {
                                    Err(f) => f,
                                    Ok(_) => Failure::new("case failed during the run but passes on re-evaluation (non-deterministic check?)"),
                                };
                                Some((minimal, failure))
                            }
                            Err(TestError::Abort(reason)) => {
                                ctx.note_inconclusive(format!("{}: proptest aborted: {reason}", self.name));
                                None
                            }
                        };
                        (stats, violation)
                    })
                })
                .collect();
            handles.into_iter().map(|h| h.join().expect("worker thread")).collect()
        });

        let mut total = PartStats {
            name: self.name.to_string(),
            rule: self.rule.to_string(),
            ..Default::default()
        };
        let mut violation = None;
        for (stats, v) in results {
            total.merge(stats);
            if violation.is_none() {
                if let Some((case, failure)) = v {
                    violation = Some(Violation {
                        part: self.name.to_string(),
                        case: serde_json::to_value(&case).unwrap_or(Value::Null),
                        failure,
                    });
                }
            }
        }
        (total, violation)
    }

    fn replay(&self, ctx: &Ctx, case: &Value) -> Verdict {
        let case: C = serde_json::from_value(case.clone())
            .map_err(|e| Failure::new(format!("replay file does not decode as a case of part {}: {e}", self.name)))?;
        eval_guarded(ctx, &*self.eval, &case)
    }
}

/// Enumerated part: a finite list of cases, all evaluated.
pub struct EnumPart<C>
where
    C: Clone + Debug + Serialize + DeserializeOwned + Send + Sync,
{
    pub name: &'static str,
    pub rule: &'static str,
    pub exhaustive: bool,
    pub cases: Box<dyn Fn(&Ctx) -> Vec<C> + Sync>,
    pub eval: Box<dyn Fn(&Ctx, &C) -> Verdict + Sync>,
}

impl<C> Part for EnumPart<C>
where
    C: Clone + Debug + Serialize + DeserializeOwned + Send + Sync,
{
    fn name(&self) -> String {
        self.name.to_string()
    }

    fn run(&self, ctx: &Ctx) -> (PartStats, Option<Violation>) {
        let cases = (self.cases)(ctx);
        let jobs = ctx.jobs.max(1).min(cases.len().max(1));
        let next = AtomicU64::new(0);
        let first_fail = AtomicU64::new(u64::MAX);
        let results: Vec<(PartStats, Vec<(usize, Failure)>)> = std::thread::scope(|scope| {
            let handles: Vec<_> = (0..jobs)
                .map(|w| {
                    let cases = &cases;
                    let next = &next;
                    let first_fail = &first_fail;
                    scope.spawn(move || {
                        WORKER.with(|c| c.set(w));
                        let mut stats = PartStats::default();
                        let mut fails = Vec::new();
                        loop {
                            let i = next.fetch_add(1, Ordering::Relaxed) as usize;
                            if i >= cases.len() || (i as u64) > first_fail.load(Ordering::Relaxed) {
                                break;
                            }
                            match eval_guarded(ctx, &*self.eval, &cases[i]) {
                                Ok(pass) => stats.record(&cases[i], &pass),
                                Err(f) => {
                                    stats.evaluations += 1;
                                    first_fail.fetch_min(i as u64, Ordering::Relaxed);
                                    fails.push((i, f));
                                }
                            }
                        }
                        (stats, fails)
                    })
                })
                .collect();
            handles.into_iter().map(|h| h.join().expect("worker thread")).collect()
        });
        let mut total = PartStats {
            name: self.name.to_string(),
            rule: self.rule.to_string(),
            exhaustive: self.exhaustive,
            ..Default::default()
        };
        let mut fails = Vec::new();
        for (stats, f) in results {
            total.merge(stats);
            fails.extend(f);
        }
        fails.sort_by_key(|(i, _)| *i);
        let violation = fails.into_iter().next().map(|(i, failure)| Violation {
            part: self.name.to_string(),
            case: serde_json::to_value(&cases[i]).unwrap_or(Value::Null),
            failure,
        });
        (total, violation)
    }

    fn replay(&self, ctx: &Ctx, case: &Value) -> Verdict {
        let case: C = serde_json::from_value(case.clone())
            .map_err(|e| Failure::new(format!("replay file does not decode as a case of part {}: {e}", self.name)))?;
        eval_guarded(ctx, &*self.eval, &case)
    }
}

/// Generate one value from a strategy with a fixed seed (used by self-tests and regressions).
pub fn sample_one<S: Strategy>(strategy: &S, seed: u64) -> S::Value {
    let mut bytes = [0u8; 32];
    let mut x = seed;
    for chunk in bytes.chunks_mut(8) {
        x = splitmix64(x);
        chunk.copy_from_slice(&x.to_le_bytes());
    }
    let rng = TestRng::from_seed(RngAlgorithm::ChaCha, &bytes);
    let mut runner = TestRunner::new_with_rng(Config::default(), rng);
    strategy.new_tree(&mut runner).expect("strategy").current()
}

/// Outcome of a whole check run.
pub struct RunReport {
    pub parts: Vec<PartStats>,
    pub violation: Option<(Violation, PathBuf)>,
    pub wall_s: f64,
}

pub fn write_replay(ctx: &Ctx, v: &Violation) -> PathBuf {
    let dir = ctx.verif_dir.join("replays").join(&ctx.property);
    std::fs::create_dir_all(&dir).expect("create replay dir");
    let body = json!({
        "property": ctx.property,
        "part": v.part,
        "case": v.case,
        "message": v.failure.message,
        "detail": v.failure.detail,
        "seed": ctx.seed,
        "tier": ctx.tier.name(),
    });
    let text = serde_json::to_string_pretty(&body).unwrap();
    let h = hash_str(&format!("{}{}", v.part, serde_json::to_string(&v.case).unwrap_or_default()));
    let path = dir.join(format!("{}-{:016x}.json", v.part, h));
    std::fs::write(&path, text).expect("write replay");
    path
}

pub fn run_parts(ctx: &Ctx, parts: &[Box<dyn Part>]) -> RunReport {
    let start = Instant::now();
    let mut stats = Vec::new();
    let mut violation = None;
    // development aid: VERIF_ONLY_PART=<substring> runs only the parts whose name contains it (the
    // evidence of such a run is partial; refresh it afterwards)
    let only = std::env::var("VERIF_ONLY_PART").ok();
    for part in parts {
        if let Some(o) = &only {
            if !part.name().contains(o.as_str()) {
                continue;
            }
        }
        let t = Instant::now();
        let (s, v) = part.run(ctx);
        eprintln!(
            "[{} {}] part {:<28} evaluations={:<8} nontrivial={:<7} {:.1}s{}",
            ctx.property,
            ctx.tier.name(),
            s.name,
            s.evaluations,
            s.nontrivial_keys.len(),
            t.elapsed().as_secs_f64(),
            if v.is_some() { "  FAILED" } else { "" }
        );
        stats.push(s);
        if let Some(v) = v {
            let path = write_replay(ctx, &v);
            violation = Some((v, path));
            break;
        }
    }
    RunReport {
        parts: stats,
        violation,
        wall_s: start.elapsed().as_secs_f64(),
    }
}

pub fn write_evidence(ctx: &Ctx, report: &RunReport, level: &str, assumptions: &[&str], extra: Value) {
    let evaluations: u64 = report.parts.iter().map(|p| p.evaluations).sum();
    let distinct: u64 = report.parts.iter().map(|p| p.nontrivial_keys.len() as u64).sum();
    let mut samples = Vec::new();
    for p in &report.parts {
        for s in p.samples.iter().take(2) {
            samples.push(json!({"part": p.name, "case": s}));
        }
    }
    if samples.is_empty() {
        samples.push(json!("no non-trivial case was produced in this run"));
    }
    let rule = report
        .parts
        .iter()
        .map(|p| format!("[{}] {}", p.name, p.rule))
        .collect::<Vec<_>>()
        .join(" ");
    let parts: Vec<Value> = report
        .parts
        .iter()
        .map(|p| {
            json!({
                "part": p.name,
                "evaluations": p.evaluations,
                "distinct_nontrivial": p.nontrivial_keys.len(),
                "exhaustive_within_bound": p.exhaustive,
                "labels": p.labels,
                "excluded_by_known_finding": p.excluded,
                "counters": p.counters,
            })
        })
        .collect();
    let all_exhaustive = !report.parts.is_empty() && report.parts.iter().all(|p| p.exhaustive);
    let inconclusive = ctx.inconclusive.lock().unwrap().clone();
    let body = json!({
        "property_id": ctx.property,
        "tier": ctx.tier.name(),
        "seed": ctx.seed,
        "level": level,
        "coverage": {
            "evaluations": evaluations,
            "distinct_nontrivial": distinct,
            "rule": rule,
            "samples": samples,
            "exhaustive": all_exhaustive,
            "parts": parts,
            "subprocess_runs": ctx.subprocess_runs.load(Ordering::Relaxed),
            "inconclusive_notes": inconclusive,
            "extra": extra,
        },
        "assumptions": assumptions,
        "wall_s": report.wall_s,
        "violations": if report.violation.is_some() { 1 } else { 0 },
    });
    let dir = ctx.verif_dir.join("evidence");
    std::fs::create_dir_all(&dir).expect("evidence dir");
    std::fs::write(
        dir.join(format!("{}.json", ctx.property)),
        serde_json::to_string_pretty(&body).unwrap() + "\n",
    )
    .expect("write evidence");
}

/// Monotone index mapping (shrinks towards 0): picks an element of a slice from a u16 draw.
pub fn pick_idx(draw: u16, len: usize) -> usize {
    if len == 0 {
        0
    } else {
        ((draw as usize) * len) >> 16
    }
}
