#!/usr/bin/env bash
# Run checks against a seeded change applied to the repository, then undo it.
#   seed_eval.sh <seeded-dir> <check-id> [more check ids...]   (quick tier unless TIER=thorough)
# Uses $VERIF_REPO (default /repo); never commits anything there.
set -u
DIR=$(readlink -f "$1"); shift
HERE="$(cd "$(dirname "$(readlink -f "$0")")/.." && pwd)"
REPO="${VERIF_REPO:-/repo}"
cd "$HERE"
if [ -n "$(git -C "$REPO" status --porcelain --untracked-files=no)" ]; then echo "$REPO is dirty, refusing" >&2; exit 2; fi
git -C "$REPO" apply "$DIR/patch.diff" || { echo "patch does not apply" >&2; exit 2; }
for ID in "$@"; do
  START=$(date +%s)
  OUT=$(./check "$ID" "${TIER:-quick}" 2>&1); RC=$?
  END=$(date +%s)
  LINE=$(echo "$OUT" | grep -a -E "^VIOLATION|^violation in part|^INCONCLUSIVE|BUILD-FAILURE" | head -2 | tr '\n' ' ' | cut -c1-300)
  echo "$(basename "$DIR") check=$ID tier=${TIER:-quick} exit=$RC secs=$((END-START)) $LINE"
done
git -C "$REPO" checkout -- .
