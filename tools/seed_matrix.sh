#!/usr/bin/env bash
# Every seeded change x every check (quick tier): which checks catch which changes.
# Meant for `vp run --with-repo -- tools/seed_matrix.sh [seeded dirs...]` (uses $VP_RUN_REPO if set);
# several shards may run side by side, each in its own snapshot.
set -u
HERE="$(cd "$(dirname "$(readlink -f "$0")")/.." && pwd)"
cd "$HERE"
export VERIF_REPO="${VP_RUN_REPO:-${VERIF_REPO:-/repo}}"
./setup.sh >/dev/null 2>&1
ALL="C01 C02 C03 C04 C05 C06 C07 C08 C09 C10 C11 C12 C13 C14 C15 C16 C17 C18 C19"
[ $# -eq 0 ] && set -- seeded/*/
for d in "$@"; do
  tools/seed_eval.sh "$d" $ALL
done
