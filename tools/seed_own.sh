#!/usr/bin/env bash
# Every seeded change named on the command line (default: all) against the check of the property
# it was written to break; with ALL=1, a change its own check misses is then run against all checks.
# Meant for `vp run --with-repo -- tools/seed_own.sh seeded/*-5 seeded/*-6`.
set -u
HERE="$(cd "$(dirname "$(readlink -f "$0")")/.." && pwd)"
cd "$HERE"
export VERIF_REPO="${VP_RUN_REPO:-${VERIF_REPO:-/repo}}"
./setup.sh >/dev/null 2>&1
ALLIDS="C01 C02 C03 C04 C05 C06 C07 C08 C09 C10 C11 C12 C13 C14 C15 C16 C17 C18 C19"
[ $# -eq 0 ] && set -- seeded/*/
for d in "$@"; do
  id=$(basename "$d"); own=${id%%-*}
  OUT=$(tools/seed_eval.sh "$d" "$own"); echo "$OUT"
  if [ "${ALL:-0}" = 1 ] && echo "$OUT" | grep -q "exit=0"; then
    OTHERS=$(echo $ALLIDS | tr ' ' '\n' | grep -v "^$own$" | tr '\n' ' ')
    tools/seed_eval.sh "$d" $OTHERS | grep -v "exit=0 "
  fi
done
