#!/usr/bin/env bash
# Phase A: confirm a sub-agent's seeded change in its scratch worktree.
#   seed_verify.sh <worktree> <k>   -> writes <worktree>/verify<k>.txt
set -u
WT=$1; K=$2
cd "$WT" || exit 2
export CARGO_NET_OFFLINE=true SFS_ALLOW_STDIN=1
OUT="$WT/verify$K.txt"; : > "$OUT"
git checkout -q -- . 
if ! git apply --check "patch$K.diff" 2>>"$OUT"; then echo "apply=FAIL" >> "$OUT"; exit 0; fi
git apply "patch$K.diff"
if cargo test --workspace --offline >"$WT/test$K.log" 2>&1; then echo "tests_with_patch=PASS" >> "$OUT"; else echo "tests_with_patch=FAIL" >> "$OUT"; fi
grep -E "^test result" "$WT/test$K.log" >> "$OUT"
bash "./demo$K.sh" >"$WT/demo${K}_patched.log" 2>&1; echo "demo_with_patch_exit=$?" >> "$OUT"
git checkout -q -- .
bash "./demo$K.sh" >"$WT/demo${K}_clean.log" 2>&1; echo "demo_clean_exit=$?" >> "$OUT"
git status --short | grep -v '^??' >> "$OUT"
echo "done" >> "$OUT"
