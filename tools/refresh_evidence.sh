#!/usr/bin/env bash
# Re-run every quick check on the unchanged /repo and validate MANIFEST + evidence against the schemas.
set -u
cd "$(dirname "$(readlink -f "$0")")/.."
if [ -n "$(git -C /repo status --porcelain --untracked-files=no)" ]; then echo "/repo is dirty, refusing" >&2; exit 2; fi
FAIL=0
for c in C01 C02 C03 C04 C05 C06 C07 C08 C09 C10 C11 C12 C13 C14 C15 C16 C17 C18 C19; do
  OUT=$(./check $c "${1:-quick}" 2>&1); RC=$?
  echo "$c exit=$RC $(echo "$OUT" | grep -a -E '^OK|^VIOLATION|^INCONCLUSIVE' | head -1 | cut -c1-160)"
  [ $RC -ne 0 ] && FAIL=1
done
python3-vt - <<'PY'
import json, jsonschema, glob
s = json.load(open('/root/.vp/EVIDENCE.schema.json'))
for f in sorted(glob.glob('/verif/evidence/*.json')):
    e = json.load(open(f)); jsonschema.validate(e, s)
    assert e.get('violations', 0) == 0, f
jsonschema.validate(json.load(open('/verif/MANIFEST.json')), json.load(open('/root/.vp/MANIFEST.schema.json')))
print('evidence and manifest validate; no evidence file records a violation')
PY
exit $FAIL
