#!/usr/bin/env python3
"""Writes /verif/MANIFEST.json from the table below (kept next to the checks so it stays in step)."""
import json, os, subprocess
HERE = os.path.dirname(os.path.dirname(os.path.abspath(__file__)))

# id -> (level category, technique, level text, level note, design ref)
CHECKS = {
 "C03": ("exploration", "exhaustive operator-coefficient grid + proptest laws against an independent hypergeometric oracle (exact u128 / ratio recurrence)",
         "Every coefficient of the projection operator is compared with an independent hypergeometric oracle for all one-axis sizes up to 48 chromosomes (thorough 120) and all 2/3/4-axis shapes in a small grid with every admissible target (exhaustive in that bound); random spectra check the double-sum definition, mass, non-negativity, identity, two-step, commutation with marginalization and the error cases; sizes around 170/171, 1030 and up to 2400 (6000) chromosomes are sampled against a ratio-recurrence oracle; the CLI is checked at the printed precision.",
         "Trusted: the oracle (exact u128 binomials up to 100 chromosomes, normalised ratio recurrence beyond), stated tolerances (1e-14..1e-8 by size).", "DESIGN.md §3 C03"),
 "C04": ("exploration", "exhaustive shapes x axis subsets x orders + proptest against a naive nested-index sum; CLI -m/-M metamorphic",
         "All shapes with <=4 axes of length <=3 (thorough <=4) x every proper subset of axes x every naming order are enumerated; random spectra with up to 5 unequal axes; oracle = naive sum, order independence, joint == one-at-a-time, mass, errors; `view -m/-M` checked against the oracle and against each other byte for byte; create/marginalize relation on generated call sets.",
         "Trusted: the naive nested-index sum as definition; integers compared exactly.", "DESIGN.md §3 C04"),
 "C05": ("exploration", "exhaustive shapes x fills + proptest against the per-cell definition; algebraic laws (mass, idempotence, polarity)",
         "Every shape with <=4 axes of length <=4 (thorough <=7) x 4 fills x 3 non-ramp value vectors is checked cell by cell against the definition in the statement (2s vs T), plus mass/idempotence/mirror laws; random shapes and values; `sfs fold` at the printed precision with all fill keywords.",
         "Trusted: the statement's per-cell definition; one commutative addition compared bitwise.", "DESIGN.md §3 C05"),
 "C07": ("exploration", "proptest round trips (write -> auto-detecting read) over an f64 zoo; generated CLI pipelines; text->npy->text byte identity",
         "Library round trips for 1..6 axes, special values, precision 0..17, both formats; producer/consumer pipelines through files, harness-fed pipes and real shell pipes; text->npy->text reproduces the text for <=15 significant digits.",
         "Trusted: Rust's correctly rounded f64 formatting/parsing.", "DESIGN.md §3 C07"),
 "C15": ("exploration", "header-length residue sweep + dtype/order/version matrix + proptest spelling variants; independent NPY validator; numpy differential",
         "Writer: shapes constructed to hit every residue of the unpadded header length modulo 64 (all 64 by construction, checked in the evidence) through an independent strict NPY 1.0 validator. Reader: the full dtype x byte-order x version matrix with boundary values, random files with header spelling variants, unsupported descriptors and Fortran order rejected. Real numpy is used as a second oracle in both directions.",
         "Trusted: the NPY spec as implemented by the harness's validator/writer (cross-checked against numpy 2.4 on every run where python3-vt exists).", "DESIGN.md §3 C15"),
 "C16": ("fault_enumeration", "per generated file: every truncation offset and every 1..16-byte extension enumerated; generated text edits; CLI sample",
         "For each generated valid npy file (both writers, all dtypes/versions) every strict prefix and every extension by 1..16 bytes is fed to the reader, which must return an error; text files with token insertions/removals and shape edits; a sample of damaged files through view/fold/stat by path and stdin.",
         "Damage model: prefixes, short extensions, token edits, shape edits that change the product. Files and offsets are sampled by file, enumerated by offset.", "DESIGN.md §3 C16"),
 "C19": ("exploration", "exhaustive enumeration of shapes in a bound + proptest call histories against an odometer model",
         "All shapes with 1..5 axes and lengths 1..4 (thorough 1..5) are enumerated completely: every index, every (axis, position) view, every out-of-range request, len() before and after every call, several calls past the first None; plus random call histories (next/len/size_hint/clone) on all four iterator types. Exhaustive inside the bound, sampled beyond it.",
         "Trusted: the harness's odometer as definition of row-major order; catch_unwind to observe panics.", "DESIGN.md §3 C19"),
}
NOT_YET = {}

def main():
    props = [json.loads(l) for l in open(os.path.join(HERE, "properties.jsonl"))]
    hooks = subprocess.run(["git", "-C", "/repo", "log", "--format=%h", "--grep=^verif hook"], capture_output=True, text=True).stdout.split()
    checks, na = [], []
    for p in props:
        pid = p["id"]
        if pid in CHECKS:
            cat, tech, text, note, ref = CHECKS[pid]
            checks.append({
                "property_id": pid,
                "quick_cmd": f"./check {pid} quick",
                "thorough_cmd": f"./check {pid} thorough",
                "evidence_file": f"/verif/evidence/{pid}.json",
                "replay_cmd_template": f"./check {pid} --replay {{path}}",
                "engine": "sfsverif",
                "level_claimed": {"category": cat, "text": text, "design_ref": ref},
                "level_note": note,
                "technique": tech,
            })
        else:
            na.append({"property_id": pid, "reason": NOT_YET.get(pid, "check under construction in this session; not claimed until it exists and is silent on the unchanged tree")})
    m = {
        "version": 1,
        "setup_cmd": "./setup.sh",
        "hooks": {
            "guard": "cargo feature `verif` of sfs-core (off by default)",
            "enable": "the harness depends on sfs-core with features = [\"verif\"] (harness/Cargo.toml); the sfs binary is built without it",
            "baseline_off_cmd": "cd /repo && cargo test --workspace --no-fail-fast --offline",
            "source_commits": hooks,
            "add_only": True,
        },
        "engines": [
            {"name": "sfsverif", "path": "/verif/harness", "serves_properties": sorted(CHECKS), "kind_free_text": "Rust binary: proptest 1.11 used as a library (seeded TestRunner per worker thread, shrinking, replay files), exhaustive enumerators, reference models, subprocess runner for the dev-profile sfs binary"},
            {"name": "libfuzzer", "path": "/verif/fuzz", "serves_properties": [], "kind_free_text": "cargo-fuzz / libFuzzer targets sharing their bodies with the harness (thorough tiers)"},
        ],
        "checks": checks,
        "not_applicable": na,
        "notes": "Technique family: property-based testing and fuzzing. See DESIGN.md. Exit codes: 0 held, 1 VIOLATION, 2 inconclusive/infrastructure.",
    }
    if not na:
        m["not_applicable"] = []
    json.dump(m, open(os.path.join(HERE, "MANIFEST.json"), "w"), indent=1)
    print("wrote MANIFEST.json:", len(checks), "checks,", len(na), "not applicable")

if __name__ == "__main__":
    main()
