#!/usr/bin/env python3
"""Writes /verif/MANIFEST.json from the table below (kept next to the checks so it stays in step)."""
import json, os, subprocess
HERE = os.path.dirname(os.path.dirname(os.path.abspath(__file__)))

# id -> (level category, technique, level text, level note, design ref)
CHECKS = {
 "C03": ("exploration", "exhaustive operator-coefficient grid + proptest laws against an independent hypergeometric oracle (exact u128 / ratio recurrence)",
         "Every coefficient of the projection operator is compared with an independent hypergeometric oracle for all one-axis sizes up to 48 chromosomes (thorough 120) and all 2/3/4-axis shapes in a small grid with every admissible target (exhaustive in that bound); random spectra check the double-sum definition, mass, non-negativity, identity, two-step, commutation with marginalization and the error cases; sizes around 170/171, 1030 and up to 2400 (6000) chromosomes, with targets at the edge of the band where C(n,m) overflows f64, are sampled against a ratio-recurrence oracle; the CLI is checked at the printed precision; `create | view --project-shape` is compared with `create --project-shape` on call sets without missing data.",
         "Trusted: the oracle (exact u128 binomials up to 100 chromosomes, normalised ratio recurrence beyond), stated tolerances (1e-14..1e-8 by size).", "DESIGN.md §3 C03"),
 "C04": ("exploration", "exhaustive shapes x axis subsets x orders + proptest against a naive nested-index sum; CLI -m/-M metamorphic",
         "All shapes with <=4 axes of length <=3 (thorough <=4) x every proper subset of axes x every naming order are enumerated; random spectra with up to 5 unequal axes; oracle = naive sum, order independence, joint == one-at-a-time, mass, errors; `view -m/-M` checked against the oracle and against each other byte for byte; create/marginalize relation on generated call sets.",
         "Trusted: the naive nested-index sum as definition; integers compared exactly.", "DESIGN.md §3 C04"),
 "C05": ("exploration", "exhaustive shapes x fills + proptest against the per-cell definition; algebraic laws (mass, idempotence, polarity)",
         "Every shape with <=4 axes of length <=5 (thorough <=7) and every 5-axis shape of length <=3 x 4 fills x 3 non-ramp value vectors is checked cell by cell against the definition in the statement (2s vs T), plus mass/idempotence/mirror laws; random shapes and values; `sfs fold` at the printed precision with all fill keywords.",
         "Trusted: the statement's per-cell definition; one commutative addition compared bitwise.", "DESIGN.md §3 C05"),
 "C07": ("exploration", "proptest round trips (write -> auto-detecting read) over an f64 zoo; generated CLI pipelines; text->npy->text byte identity",
         "Library round trips for 1..6 axes (sizes around powers of two up to 12 000 cells), special values, precision 0..17, both formats; producer/consumer pipelines (create, view, fold -> view, fold, stat) through files (also onto existing longer files), harness-fed pipes and real shell pipes; text->npy->text reproduces the text for <=15 significant digits.",
         "Trusted: Rust's correctly rounded f64 formatting/parsing.", "DESIGN.md §3 C07"),
 "C15": ("exploration", "header-length residue sweep + dtype/order/version matrix + proptest spelling variants; independent NPY validator; numpy differential",
         "Writer: shapes constructed to hit every residue of the unpadded header length modulo 64 (all 64 by construction, checked in the evidence) through an independent strict NPY 1.0 validator. Reader: the full dtype x byte-order x version matrix with boundary values, random files with header spelling variants, unsupported descriptors and Fortran order rejected. Real numpy is used as a second oracle in both directions.",
         "Trusted: the NPY spec as implemented by the harness's validator/writer (cross-checked against numpy 2.4 on every run where python3-vt exists).", "DESIGN.md §3 C15"),
 "C16": ("fault_enumeration", "per generated file: every truncation offset and every 1..16-byte extension enumerated; generated text edits; CLI sample",
         "For each generated valid npy file (both writers, all dtypes/versions) every strict prefix and every extension by 1..16 bytes is fed to the reader, which must return an error; text files with token insertions/removals and shape edits; a sample of damaged files through view/fold/stat by path and stdin.",
         "Damage model: prefixes, short extensions, token edits, shape edits that change the product. Files and offsets are sampled by file, enumerated by offset.", "DESIGN.md §3 C16"),
 "C19": ("exploration", "exhaustive enumeration of shapes in a bound + proptest call histories against an odometer model",
         "All shapes with 1..5 axes and lengths 1..5 (thorough 1..6), plus all shapes with 6..7 axes of lengths 1..2, are enumerated completely: every index, every (axis, position) view, every out-of-range request, len() before and after every call, several calls past the first None; plus random call histories (next/len/size_hint/clone) on all four iterator types. Exhaustive inside the bound, sampled beyond it.",
         "Trusted: the harness's odometer as definition of row-major order; catch_unwind to observe panics.", "DESIGN.md §3 C19"),
}

CHECKS.update({
 "C01": ("exploration", "proptest over structured call sets x sample maps x containers against a reference model of create; libFuzzer campaign over a byte->call-set decoder with the same model as in-target oracle",
         "Generated call sets (phasing, missing, multiallelic up to 11 ALT alleles with two-digit indices, monomorphic, symbolic ALT, REF alleles up to 9 000 bases, extra fields, records without GT, non-diploid genotypes in unselected samples; forced record classes) x maps (1..4 populations, subsets, inline/file/none) x {vcf, bgzf-vcf, bgzf-bcf, raw bcf written by the harness's own encoders} x log verbosity: exact equality of shape and every cell with a reference model written from the statement, and integer printing; counts beyond 2^8/2^16/2^20. Second generator: bytes decoded into (call set, map, projection, container), run through the library's reader and site loop, every record's fate and the final spectrum compared with the model -- random bytes in the quick tier, a coverage-guided libFuzzer campaign (1M executions) in the thorough tier.",
         "Trusted: the reference model (naive, on the structured call set), the harness's VCF/BCF/BGZF renderers (cross-checked against noodles/flate2 in selftest).", "DESIGN.md §3 C01"),
 "C02": ("exploration", "proptest with boundary-weighted projection targets against the reference model + independent hypergeometric oracle; large-cohort class; -p vs --project-shape metamorphic",
         "Targets anchored on records' called totals (exactly sufficient / one pair short), 0, full size, random; precision 0..12; cohorts of 150..700 samples; inadmissible targets must fail cleanly.",
         "Trusted: reference model + hypergeometric oracle; printed-value tolerance stated in the evidence.", "DESIGN.md §3 C02"),
 "C06": ("exploration", "proptest: statistics recomputed literally from genotypes (pair enumeration, per-site frequencies, 3x3 tally) and from the papers' formulas; starvation guard per statistic",
         "Part A evaluates every statistic's definition directly on the haplotypes of the counted records and compares with `create | stat --precision 12`; Part B re-derives Watterson, pi, Tajima's D and Fu and Li's D for n up to 600. The run is inconclusive unless each of the 14 statistics was compared at least 100 times.",
         "Trusted: the literal definitions cited in the evidence; tolerance 0.5e-12 + 1e-10(1+|x|), D scaled by its cancelling terms.", "DESIGN.md §3 C06"),
 "C08": ("exploration", "exhaustive enumeration of the GT alphabet (942 strings x VCF/BCF x selected/unselected) + proptest embedding",
         "Every GT string over {., 0, 1, 2, 3, 10} x {/, |} x ploidy 1..3 in both decoding paths, selected and unselected, against the statement's classification (count index, skip reason in the trace, error naming contig:position, no effect when unselected); random call sets embed all classes mid-stream.",
         "Exhaustive in the stated alphabet.", "DESIGN.md §3 C08"),
 "C09": ("exploration", "proptest metamorphic relations (column permutation, list permutations, file vs inline) + reference model",
         "Byte-identical stdout under sample-column permutation, label-order-preserving list permutation and --samples/--samples-file; axes transposed by the label permutation otherwise; absolute check against the model; ghost sample / empty list are errors.",
         "Trusted: reference model; transposition done by the harness.", "DESIGN.md §3 C09"),
 "C10": ("fault_enumeration", "proptest conservation invariant + fault placed at every record position",
         "mass + skipped == records with X/Y parsed from stderr (exact without projection), strict mode names the first skippable record or equals the non-strict output; ploidy / truncated-column / bad-POS / bad-GT faults at every position 0..=N must give non-zero exit, a diagnostic and empty stdout.",
         "Fault model: one fault per run; positions enumerated per generated call set.", "DESIGN.md §3 C10"),
 "C11": ("exploration", "model-based histories: generated record sequences through the real site reader vs per-record fresh readers; split/permutation relations; CLI concat/permute",
         "An in-memory genotype::Reader feeds the real site::Reader; each record's contribution inside a stream must equal its contribution read alone; every split point and a permutation; predecessor/successor class pairs are reported.",
         "Per-record genotype classification is the harness's (C08 covers the VCF/BCF conversion).", "DESIGN.md §3 C11"),
 "C12": ("exploration", "differential across containers x transports x thread counts x BGZF layouts x repetitions (byte-identical stdout)",
         "Same call data rendered four ways with generated BGZF block layouts (incl. 64 KiB payloads, 1-byte blocks, empty blocks, no EOF marker), by path / stdin file / stdin pipe, threads from {1,2,3,4,8,16}, repeated executions: all stdout bytes and exit statuses equal.",
         "Thread interleavings and hash seeds are sampled, not controlled: repetition, CPU pinning of the child to one and to two cores, four environments.", "DESIGN.md §3 C12"),
 "C13": ("exploration", "proptest over all 16 option subsets: combined invocation vs chained single-option invocations (byte identity) + absolute model",
         "Combined `view` equals the documented chain byte for byte and the harness's model within tolerance; single-option semantics of mask and normalize; all 16 subsets must occur or the run is inconclusive.",
         "Trusted: harness models of marginalize/project (validated in C03/C04).", "DESIGN.md §3 C13"),
 "C14": ("exploration", "proptest metamorphic relations between statistic evaluations (fold, monomorphic cells, transpose, scaling, f2 decompositions)",
         "Library and CLI relations listed in the statement, on spectra with unequal axes; undefined (non-finite) statistics are not compared.",
         "Tolerance 1e-11 relative (x10 for ratios).", "DESIGN.md §3 C14"),
 "C17": ("exploration", "grid enumeration + mutation-based generators over 7 families; panic-signature oracle; (thorough) libFuzzer targets",
         "Full statistic x shape grid, option values at and beyond bounds, contradictory sample lists, absurd declared shapes, all tiny inputs and prefixes, mutated spectrum and call-set bytes in all containers: exit 0 or diagnosed failure, never a panic/abort. Known dependency panics are excluded by exact signature and counted.",
         "Dev-profile binary (overflow checks on); child address space capped at 512 MiB (allocation failures under the cap are counted, not violations).", "DESIGN.md §3 C17"),
 "C18": ("fault_enumeration", "harness-owned BufRead/Write with enumerated first-chunk lengths and a fault injected at every offset; real pipes with paced first chunk",
         "First chunk length 1..min(len,300) enumerated for npy files and for call sets in all four containers (through the verif hook), later chunks generated; read fault at every npy offset and every call-set offset < 300 (+ sampled), write fault at every offset; result must equal the one-slice result / be an error.",
         "The harness owns chunking and fault offset; BGZF worker threads are not scheduled.", "DESIGN.md §3 C18"),
})

# additions made after the seeded-change rounds (appended to the level text above)
EXTRA = {
 "C01": "Also --threads {unset,1,2,4,7}, BCF dictionaries with GT above index 127 or without IDX attributes, lone-dot genotypes, duplicate positions, non-ASCII sample names, input files under customary / neutral / contradicting names, and four-population spectra of 5 103..6 561 cells. Populations of 100..330 samples whose per-record ALT and called counts pass 127, 255, 256 (one-byte tallies). Contigs named exactly X, Y, MT, chrX, chrM, W, Z.",
 "C02": "Precisions up to 40 (and 100) with the decimal count checked. Large cohorts include rare-variant records (1..5 minor alleles, or nearly fixed) and tiny targets (1..6 chromosomes); a long-stream part (16..34 samples, 300..1400 records with ever-changing called/ALT pairs, targets 1..10) compares every cell with the model.",
 "C03": "Large one-axis cases are sparse or dense (every source row in one projection, target n/4..n); spectra of 4 160..8 910 cells in 2..4 axes; the laws are repeated on the normalised (Sfs) type-state. The library's public coefficient utils::hypergeometric_pmf itself against the oracle for population sizes up to 12 000 chromosomes (support, sum, every k).",
 "C04": "Shapes whose rows pass 4096/8192 elements; genome-scale fractional totals; duplicates at every list position, for -m and -M alike; the normalised (Sfs) type-state.",
 "C05": "Spectra of 4 097..8 910 entries; each spectrum folded again on the normalised (Sfs) type-state and with NaN / +-inf entries, which must propagate and never be replaced by the fill. One Folded unfolded seven times with changing fills, and a clone of it made midway.",
 "C06": "Estimator formulas also for 511..513, 1023..1025, 4096/4097 and up to 5000 chromosomes. Several statistics in one invocation with a frequency-based one before, between and behind the scale-dependent ones, each value against its definition.",
 "C07": "Precisions 18..60, 100, 330, 400 with values down to 1e-40 and small values with a full mantissa; signed zeros in the text-npy-text relation; intermediate files and fifos named with a matching, neutral, contradicting or no extension.",
 "C08": "Every string of ploidy <= 2 again in records whose ALT column lists 0 or 1 alleles (fewer than the genotype refers to). The lone '.' is classified as missing in both containers (no leniency any more). A non-diploid genotype must fail the run also under -p, --project-shape, a projection of its own population to zero, and --strict -q. Contigs named exactly X, Y, MT, chrX, chrM and the like: a contig's name never changes how a genotype is classified.",
 "C09": "The samples file also without final newline, with CRLF, and read from a pipe (-S /dev/stdin); the ghost sample also together with a projection or --strict -q. The library's empty in-memory list (Samples::List(vec![])), with and without a projection, is an error.",
 "C10": "Empty lines in VCF text and a ploidy fault next to a missing genotype in the same record are faults too. Truncated BGZF files with record-aligned blocks (cut inside a block payload, 1 and 4 threads) and raw BCF cut from one byte into a record must fail. The strict run at every log verbosity (-v..-vvv, -q, -qq); under --strict a skippable record before any kind of fault (ploidy, malformed line, truncated stream) must be the one named.",
 "C11": "Streams of 1 025..20 000 records through the binary; cohorts of 86..700 samples (tables that grow with the chromosome count) under split / permutation / reversal. Histories over 5..8 populations (per-population state packed into machine words or fixed-size tables).",
 "C12": "Also a pipe named by path (/dev/stdin) and a named pipe (mkfifo), BCF dictionaries with GT above index 127, one further option per case (projection printed with 17 decimals, --strict, -vv, -q); gzip header fields (MTIME, XFL, OS) as htslib writes them or not. The library reader with format and/or compression named truthfully by the caller instead of detected gives the same result for all four containers.",
 "C13": "One case in twelve has 4 097..8 200 entries.",
 "C14": "Spectra of 4 098..8 910 entries; through the CLI also the input scaled by 2^-70 and folded at --precision 60 (scale-free statistics); scale factors that bring the total to 1 or just beside it; f2/f3/f4 of 1e-7..1e-10 of either sign printed at --precision 20 against the library.",
 "C15": "Reader: files of 511..8 193 values (data sections around 512 B..64 KiB) with every value compared; writer through `-o` onto an existing longer file and on 21 800..21 830 axes (headers at the edge of the NPY 1.0 limit); reader also through buffered readers whose buffer ends inside a value. Through the binary: files of every dtype and byte order, header padded to 64 or 16, whose data section begins and ends with a blank, line-end, '#' or 0x00/0xff byte.",
 "C16": "Files whose data section is a whole multiple of 512 B..128 KiB; damaged files under names ending .npy/.sfs/.txt/.bin/none; `-O npy`, `-O text`, `-o FILE` variants (the -o file must not hold a spectrum either); extensions by the beginning or the whole of a second npy file; on stdin also in two writes split where the valid file ends. Valid files with a header padded to 16 only whose data begin with 0..20 blank bytes (what header padding is made of), under every truncation and extension.",
 "C17": "Every tuple of <= 3 declared axis lengths over {0,1,2,3,2^32,2^63,2^64-1} (text) and {0,1,2,2^32,2^64-1} (npy); npy shape () with 0/1/3 values; 5 000..40 000 axes of length 1; every statistic family on them; 20..70 one-sample populations; hostile IDX attributes in BCF headers; reserved bit patterns in FORMAT fields; (thorough) 150 000 axes; every order of the pieces of a text header; shapes sweeping every residue of the npy header length. Valid small spectra of every shape over lengths {1,2,3,9} (9/1, 1/9, 3/3/1, ...) through every command and statistic.",
 "C18": "Each fault once persistent and once transient (a single failing call, later calls succeed), call-set faults also with error kinds UnexpectedEof and BrokenPipe and at every BCF record start and BGZF block start; EPIPE and ENOSPC on the binary's stdout, and a file-size limit that makes a write fail in the middle or in the last block of the output. First-chunk lengths again with format and/or compression named by the caller (set_format, set_compression_method).",
 "C19": "Arrays of 1 025..8 193 elements; all 220 shapes with a zero-length axis among <= 4 axes of length 0..3; iterators over axes that do not exist; sums on signed fills (all negative, mixed with zeros, sign by position). The other constructors (from_iter, from_element, from_zeros), as_mut_slice and index_axis agree with new / get / get_axis.",
}

NOT_YET = {}

def main():
    props = [json.loads(l) for l in open(os.path.join(HERE, "properties.jsonl"))]
    hooks = subprocess.run(["git", "-C", "/repo", "log", "--format=%h", "--grep=^verif hook"], capture_output=True, text=True).stdout.split()
    checks, na = [], []
    for p in props:
        pid = p["id"]
        if pid in CHECKS:
            cat, tech, text, note, ref = CHECKS[pid]
            if pid in EXTRA:
                text = text + " " + EXTRA[pid]
            checks.append({
                "property_id": pid,
                "quick_cmd": f"./check {pid} quick",
                "thorough_cmd": f"./check {pid} thorough",
                "evidence_file": f"/verif/evidence/{pid}.json",
                "replay_cmd_template": f"./check {pid} --replay {{path}}",
                "engine": "sfsverif",
                "level_claimed": {"category": cat, "text": text, "design_ref": ref},
                "level_note": note,
                "technique": tech,
            })
        else:
            na.append({"property_id": pid, "reason": NOT_YET.get(pid, "check under construction in this session; not claimed until it exists and is silent on the unchanged tree")})
    m = {
        "version": 1,
        "setup_cmd": "./setup.sh",
        "hooks": {
            "guard": "cargo feature `verif` of sfs-core (off by default)",
            "enable": "the harness depends on sfs-core with features = [\"verif\"] (harness/Cargo.toml); the sfs binary is built without it",
            "baseline_off_cmd": "cd /repo && cargo test --workspace --no-fail-fast --offline",
            "source_commits": hooks,
            "add_only": True,
        },
        "engines": [
            {"name": "sfsverif", "path": "/verif/harness", "serves_properties": sorted(CHECKS), "kind_free_text": "Rust binary: proptest 1.11 used as a library (seeded TestRunner per worker thread, shrinking, replay files), exhaustive enumerators, reference models, subprocess runner for the dev-profile sfs binary"},
            {"name": "libfuzzer", "path": "/verif/fuzz", "serves_properties": ["C01", "C15", "C16", "C17"], "kind_free_text": "cargo-fuzz / libFuzzer targets fz_npy, fz_spectrum, fz_create, fz_callset sharing their bodies (and oracles) with the harness; campaigns run in the thorough tiers, saved crash inputs are replayed in every tier"},
        ],
        "checks": checks,
        "not_applicable": na,
        "notes": "Technique family: property-based testing and fuzzing. See DESIGN.md. Exit codes: 0 held, 1 VIOLATION, 2 inconclusive/infrastructure.",
    }
    if not na:
        m["not_applicable"] = []
    json.dump(m, open(os.path.join(HERE, "MANIFEST.json"), "w"), indent=1)
    print("wrote MANIFEST.json:", len(checks), "checks,", len(na), "not applicable")

if __name__ == "__main__":
    main()
