#!/usr/bin/env python3
"""Writes /verif/MANIFEST.json from the table below (kept next to the checks so it stays in step)."""
import json, os, subprocess
HERE = os.path.dirname(os.path.dirname(os.path.abspath(__file__)))

# id -> (level category, technique, level text, level note, design ref)
CHECKS = {
 "C19": ("exploration", "exhaustive enumeration of shapes in a bound + proptest call histories against an odometer model",
         "All shapes with 1..5 axes and lengths 1..4 (thorough 1..5) are enumerated completely: every index, every (axis, position) view, every out-of-range request, len() before and after every call, several calls past the first None; plus random call histories (next/len/size_hint/clone) on all four iterator types. Exhaustive inside the bound, sampled beyond it.",
         "Trusted: the harness's odometer as definition of row-major order; catch_unwind to observe panics.", "DESIGN.md §3 C19"),
}
NOT_YET = {}

def main():
    props = [json.loads(l) for l in open(os.path.join(HERE, "properties.jsonl"))]
    hooks = subprocess.run(["git", "-C", "/repo", "log", "--format=%h", "--grep=^verif hook"], capture_output=True, text=True).stdout.split()
    checks, na = [], []
    for p in props:
        pid = p["id"]
        if pid in CHECKS:
            cat, tech, text, note, ref = CHECKS[pid]
            checks.append({
                "property_id": pid,
                "quick_cmd": f"./check {pid} quick",
                "thorough_cmd": f"./check {pid} thorough",
                "evidence_file": f"/verif/evidence/{pid}.json",
                "replay_cmd_template": f"./check {pid} --replay {{path}}",
                "engine": "sfsverif",
                "level_claimed": {"category": cat, "text": text, "design_ref": ref},
                "level_note": note,
                "technique": tech,
            })
        else:
            na.append({"property_id": pid, "reason": NOT_YET.get(pid, "check under construction in this session; not claimed until it exists and is silent on the unchanged tree")})
    m = {
        "version": 1,
        "setup_cmd": "./setup.sh",
        "hooks": {
            "guard": "cargo feature `verif` of sfs-core (off by default)",
            "enable": "the harness depends on sfs-core with features = [\"verif\"] (harness/Cargo.toml); the sfs binary is built without it",
            "baseline_off_cmd": "cd /repo && cargo test --workspace --no-fail-fast --offline",
            "source_commits": hooks,
            "add_only": True,
        },
        "engines": [
            {"name": "sfsverif", "path": "/verif/harness", "serves_properties": sorted(CHECKS), "kind_free_text": "Rust binary: proptest 1.11 used as a library (seeded TestRunner per worker thread, shrinking, replay files), exhaustive enumerators, reference models, subprocess runner for the dev-profile sfs binary"},
            {"name": "libfuzzer", "path": "/verif/fuzz", "serves_properties": [], "kind_free_text": "cargo-fuzz / libFuzzer targets sharing their bodies with the harness (thorough tiers)"},
        ],
        "checks": checks,
        "not_applicable": na,
        "notes": "Technique family: property-based testing and fuzzing. See DESIGN.md. Exit codes: 0 held, 1 VIOLATION, 2 inconclusive/infrastructure.",
    }
    if not na:
        m["not_applicable"] = []
    json.dump(m, open(os.path.join(HERE, "MANIFEST.json"), "w"), indent=1)
    print("wrote MANIFEST.json:", len(checks), "checks,", len(na), "not applicable")

if __name__ == "__main__":
    main()
