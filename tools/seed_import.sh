#!/usr/bin/env bash
# Phase B: after tools/seed_verify.sh confirmed a sub-agent's change, copy it into seeded/<id>-<n>/.
#   seed_import.sh <worktree> <k> <id> <n> <round>
# Refuses unless verify<k>.txt shows: tests pass with the patch, demo fails with it, demo passes without.
set -u
WT=$1; K=$2; ID=$3; N=$4; ROUND=$5
HERE="$(cd "$(dirname "$(readlink -f "$0")")/.." && pwd)"
V="$WT/verify$K.txt"
grep -q "tests_with_patch=PASS" "$V" || { echo "$ID-$N: tests do not pass with the patch"; exit 1; }
grep -q "demo_clean_exit=0" "$V" || { echo "$ID-$N: demo fails on the clean tree"; exit 1; }
DP=$(grep -o "demo_with_patch_exit=[0-9]*" "$V" | cut -d= -f2)
[ -n "$DP" ] && [ "$DP" != 0 ] || { echo "$ID-$N: demo does not fail with the patch"; exit 1; }
D="$HERE/seeded/$ID-$N"; mkdir -p "$D"
cp "$WT/patch$K.diff" "$D/patch.diff"
cp "$WT/demo$K.sh" "$D/demo.sh"
[ -d "$WT/demo${K}_files" ] && cp -r "$WT/demo${K}_files" "$D/"
cp "$WT/NOTES$K.md" "$D/NOTES.md"
grep -v "^apply" "$V" > "$D/verified.txt"
python3 - "$D" "$ID" "$N" "$ROUND" "$DP" <<'EOF'
import json,sys,re
d,pid,n,rnd,dp=sys.argv[1:]
title=""
for l in open('/verif/properties.jsonl'):
    p=json.loads(l)
    if p['id']==pid: title=p.get('title','')
files=re.findall(r'^\+\+\+ b/(.*)$', open(d+'/patch.diff').read(), re.M)
meta={"id":f"{pid}-{n}","breaks_property":pid,"property_title":title,"round":int(rnd),
 "origin":"written by an independent sub-agent that saw only the property text and a scratch worktree of the repository (nothing from /verif); round 5 was told the titles of the eight earlier changes for its property and the families of change the framework had already been shown, and asked for a different kind (value patterns, interactions of two features, carried state, integer narrowing, last-element off-by-ones, sort/dedup, non-trivial 'trivial' cases, library-only paths, error paths falling through)",
 "files_changed":files,
 "summary_and_trigger":"see NOTES.md (the sub-agent's own description: what the change is, why the existing tests still pass, what it needs in order to manifest)",
 "confirmed_by_me":{"how":"tools/seed_verify.sh in a scratch worktree under /tmp: git apply patch; cargo test --workspace --offline; bash demo.sh (must fail); git checkout; bash demo.sh (must pass)",
   "tests_with_patch":"PASS","demo_with_patch_exit":int(dp),"demo_clean_exit":0},
 "applies_to_repo_head":True,
 "run_against_checks":f"git -C /repo apply seeded/{pid}-{n}/patch.diff; ./check <id> quick; git -C /repo checkout -- .   (tools/seed_eval.sh); results tabulated in DESIGN.md section 10.5"}
json.dump(meta,open(d+'/meta.json','w'),indent=1)
EOF
git -C /repo apply --check "$D/patch.diff" || echo "$ID-$N: WARNING does not apply to /repo HEAD"
echo "$ID-$N imported"
