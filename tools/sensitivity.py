#!/usr/bin/env python3
"""My own deliberate breakages (DESIGN.md section 7.2): each is applied to /repo's working tree,
the repository's test suite and the property's quick check are run, and the change is undone.
Nothing is committed in /repo.  Usage: tools/sensitivity.py [ID-prefix ...]  -> work/sensitivity.tsv"""
import subprocess, sys, os, time

REPO = "/repo"
VERIF = os.path.dirname(os.path.dirname(os.path.abspath(__file__)))

# (name, property, file, old, new)
M = [
 ("C01-a", "C01", "cli/src/create.rs", "self.project.as_ref().map_or(0, |_| self.precision)", "self.project.as_ref().map_or(1, |_| self.precision)"),
 ("C01-b", "C01", "core/src/input/site/reader.rs", "        } else if self.skipped_samples.is_empty() {", "        } else if self.skipped_samples.len() <= 1 && self.totals.len() > 2 || self.skipped_samples.is_empty() {"),
 ("C01-c", "C01", "core/src/input/sample.rs", ".map(|id| 1 + 2 * population_sizes.get(&population::Id(id)).unwrap())", ".map(|id| 1 + 2 * population_sizes.get(&population::Id(if population_sizes.len() == 4 { 3 - id } else { id })).unwrap())"),
 ("C02-a", "C02", "core/src/input/site/reader.rs", "(exact && total == to, projectable && total >= to)", "(exact && total == to, projectable && total > to)"),
 ("C02-b", "C02", "core/src/utils.rs", "binomial(successes, observed) * binomial(size - successes, draws - observed)", "binomial(successes, observed) * binomial(size - successes, draws.saturating_sub(observed + (size > 40) as u64))"),
 ("C02-c", "C02", "core/src/input/site/reader/builder.rs", "                .find(|(_, (from, to))| from < to)", "                .find(|(_, (from, to))| **from + 1 < **to)"),
 ("C03-a", "C03", "core/src/spectrum/count.rs", "            *x = x.checked_sub(1)?;", "            *x = x.checked_sub(1).or(Some(0))?;"),
 ("C03-b", "C03", "core/src/utils.rs", "    const MAX: usize = 170;", "    const MAX: usize = 171;"),
 ("C03-c", "C03", "core/src/spectrum/project.rs", "        if self.to[axis] <= self.project_to[axis] {", "        if self.to[axis] <= self.project_to[axis] && !(axis == 2 && self.to[axis] == 3) {"),
 ("C04-a", "C04", "core/src/spectrum.rs", "            axes.sort();", "            axes.sort(); axes.reverse(); axes.reverse(); if axes.len() == 3 { axes.swap(0, 1); }"),
 ("C04-b", "C04", "cli/src/view.rs", "                    .filter(|i| !keep.contains(i))", "                    .filter(|i| !keep.contains(i) || (keep.len() == 3 && *i == 3))"),
 ("C04-c", "C04", "core/src/array/shape/removed_axis.rs", "            inner.get(index + 1)\n", "            inner.get(index + 1 + (index > 2) as usize)\n"),
 ("C05-a", "C05", "core/src/spectrum/folded.rs", "        let mid_count = total_count / 2;", "        let mid_count = if spectrum.shape().len() == 4 { (total_count + 1) / 2 } else { total_count / 2 };"),
 ("C05-b", "C05", "cli/src/fold.rs", "            Fill::MinusOne => -1.,", "            Fill::MinusOne => 1.,"),
 ("C05-c", "C05", "core/src/array/shape.rs", "            sum += flat / n;\n", "            sum += if n == 1 && self.len() > 2 && *v == 1 { 1 } else { flat / n };\n"),
 ("C06-a", "C06", "core/src/spectrum/stat.rs", ".map(|(v, fs)| v * (fs[0] - fs[1]) * (fs[0] - fs[2]))", ".map(|(v, fs)| v * (fs[1] - fs[0]) * (fs[1] - fs[2]))"),
 ("C06-b", "C06", "core/src/spectrum/stat.rs", "        let numer = s[[1, 1]] - 2. * (s[[0, 2]] + s[[2, 0]]);", "        let numer = s[[1, 1]] - (s[[0, 2]] + s[[2, 0]]);"),
 ("C06-c", "C06", "core/src/spectrum/stat.rs", "        let denom = (n1 * n2) as f64;", "        let denom = (n1 * n1.max(n2)) as f64;"),
 ("C06-d", "C06", "core/src/spectrum/stat/d.rs", "(c - ((n + 1.0) / (n - 1.0)));", "(c - ((n + 1.0) / n));"),
 ("C06-e", "C06", "core/src/spectrum/stat.rs", ".map(|(v, fs)| v * (fs[0] - fs[1]) * (fs[2] - fs[3]))", ".map(|(v, fs)| v * (fs[0] - fs[2]) * (fs[1] - fs[3]))"),
 ("C07-a", "C07", "core/src/spectrum/io/text.rs", "        write!(init, \"{first:.precision$}\").unwrap();", "        write!(init, \"{first:.prec$}\", prec = precision.min(15)).unwrap();"),
 ("C07-b", "C07", "core/src/spectrum/io.rs", "        Self::detect_npy(bytes).xor(Self::detect_plain_text(bytes))", "        Self::detect_plain_text(bytes).or_else(|| (bytes.len() % 64 != 8).then(|| Self::detect_npy(bytes)).flatten())"),
 ("C08-a", "C08", "core/src/input/genotype/reader/vcf.rs", "                [a, b] => match (a.position(), b.position()) {", "                [a, b, ..] => match (a.position(), b.position()) {"),
 ("C08-b", "C08", "core/src/input/genotype/reader/vcf.rs", "                    _ => genotype::Result::Skipped(genotype::Skipped::Missing),\n                },\n                _ => genotype::Result::Error", "                    (None, None) => genotype::Result::Skipped(genotype::Skipped::Missing),\n                    _ => genotype::Result::Skipped(genotype::Skipped::Multiallelic),\n                },\n                _ => genotype::Result::Error"),
 ("C09-a", "C09", "core/src/input/site/reader/builder.rs", "            Some(Samples::List(list)) => sample::Map::from_iter(list),", "            Some(Samples::List(mut list)) => { if list.len() > 3 { list.sort_by(|a, b| a.0.as_ref().cmp(b.0.as_ref())); } sample::Map::from_iter(list) }"),
 ("C09-b", "C09", "core/src/input/site/reader/builder.rs", "            .find(|sample| !reader_samples.contains(sample))", "            .find(|sample| !reader_samples.contains(sample) && sample_map.samples().count() < 3)"),
 ("C10-a", "C10", "cli/src/create/runner.rs", "            self.skipped += 1;\n        }", "            if self.sites > 0 { self.skipped += 1; }\n        }"),
 ("C10-b", "C10", "cli/src/create/runner.rs", "                ReadStatus::Read(Site::InsufficientData) => {\n                    self.handle_skipped_site()?;", "                ReadStatus::Read(Site::InsufficientData) => {\n                    if self.sites > 0 || !self.strict { self.handle_skipped_site()?; }"),
 ("C11-a", "C11", "core/src/input/site/reader.rs", "        self.skipped_samples.clear();", "        if self.projection.is_some() { self.skipped_samples.clear(); }"),
 ("C11-b", "C11", "core/src/input/site/reader.rs", "        self.totals.set_zero();", "        if self.projection.is_none() || self.skipped_samples.is_empty() { self.totals.set_zero(); }"),
 ("C12-a", "C12", "core/src/input/genotype/reader/builder.rs", "const BCF_MAGIC_NUMBER: [u8; 3] = *b\"BCF\";", "const BCF_MAGIC_NUMBER: [u8; 3] = *b\"BCG\";"),
 ("C12-b", "C12", "core/src/input/genotype/reader/builder.rs", "                (CompressionMethod::detect(&start), reader)", "                (if self.threads.get() == 3 { None } else { CompressionMethod::detect(&start) }, reader)"),
 ("C13-a", "C13", "cli/src/view.rs", "            raw[0] = 0.0;", "            raw[0] = if self.normalize && raw.len() > 4 { raw[0] * 0.5 } else { 0.0 };"),
 ("C13-b", "C13", "core/src/spectrum.rs", "        self.array.iter_mut().for_each(|x| *x /= sum);", "        let sum = if self.dimensions() == 3 { sum.max(1.0) } else { sum };\n        self.array.iter_mut().for_each(|x| *x /= sum);"),
 ("C14-a", "C14", "core/src/spectrum/stat.rs", "            .take(sfs.elements() - 1)\n            .skip(1);", "            .take(sfs.elements() - 1)\n            .skip(2);"),
 ("C14-b", "C14", "core/src/spectrum/stat.rs", "                let p1 = m1 * (n2 - m2);", "                let p1 = m1 * (n2 - m2) + (m1 == 1 && m2 == 0) as usize;"),
 ("C15-a", "C15", "core/src/array/npy/header.rs", "const ALIGN: usize = 64;", "const ALIGN: usize = 16;"),
 ("C15-b", "C15", "core/src/array/npy/header.rs", "            (Endian::Big, Type::I8) => impl_get_read_fn!(i64, from_be_bytes),", "            (Endian::Big, Type::I8) => impl_get_read_fn!(i64, from_le_bytes),"),
 ("C15-c", "C15", "core/src/array/npy/header.rs", "            [3, _] => Ok(Self::V3),", "            [3, _] => Ok(Self::V1),"),
 ("C16-a", "C16", "core/src/array.rs", "        if elements == Some(data.len()) {", "        if elements.map_or(false, |e| e == data.len() || (e > 8 && e + 1 == data.len())) {"),
 ("C16-b", "C16", "core/src/spectrum/io/text.rs", "    s.split_ascii_whitespace()\n        .map(f64::from_str)", "    s.split_ascii_whitespace()\n        .take(shape.elements().max(2))\n        .map(f64::from_str)"),
 ("C17-a", "C17", "core/src/spectrum/stat.rs", "        let n_i_sub = shape[0] as f64 - 2.0;", "        let n_i_sub = (shape[0] - 2) as f64;"),
 ("C17-b", "C17", "core/src/spectrum/io/read.rs", "        if scs.shape().iter().any(|&n| n == 0) {", "        if scs.shape().iter().all(|&n| n == 0) {"),
 ("C18-a", "C18", "core/src/input/genotype/reader/builder.rs", "    reader.by_ref().take(n as u64).read_to_end(&mut start)?;", "    { let buf = reader.fill_buf()?; let k = buf.len().min(n); start.extend_from_slice(&buf[..k]); reader.consume(k); }"),
 ("C18-b", "C18", "core/src/array/npy/header.rs", "        while !reader.fill_buf()?.is_empty() {", "        while !reader.fill_buf().unwrap_or(&[]).is_empty() {"),
 ("C19-a", "C19", "core/src/array/shape/strides.rs", "                .all(|(idx, shape)| idx < shape);", "                .all(|(idx, shape)| idx < shape || (*shape > 4 && idx == shape));"),
 ("C19-b", "C19", "core/src/array/iter.rs", "        let len = self.total - self.index;", "        let len = (self.total - self.index).max((self.total > 100) as usize);"),
 ("C19-c", "C19", "core/src/array/view/iter.rs", "        self.view.strides[axis] * (self.view.shape[axis] - 1)", "        self.view.strides[axis] * (self.view.shape[axis] - 1) + (self.view.dimensions() > 3 && axis == 1) as usize"),
]

def sh(cmd, **kw):
    return subprocess.run(cmd, shell=True, capture_output=True, text=True, **kw)

def main():
    sel = sys.argv[1:]
    out = open(os.path.join(VERIF, "work", "sensitivity.tsv"), "a")
    for name, prop, path, old, new in M:
        if sel and not any(name.startswith(s) for s in sel):
            continue
        full = os.path.join(REPO, path)
        if sh(f"git -C {REPO} status --porcelain --untracked-files=no").stdout.strip():
            print("repo dirty, abort"); return 2
        src = open(full).read()
        if src.count(old) != 1:
            line = f"{name}\t{prop}\tSKIP (pattern occurs {src.count(old)} times)"
            print(line); out.write(line + "\n"); out.flush(); continue
        open(full, "w").write(src.replace(old, new))
        try:
            b = sh(f"cd {REPO} && cargo build --workspace --offline 2>&1 | tail -1")
            if "could not compile" in b.stdout or "error" in b.stdout.lower():
                tests = "COMPILE-ERROR"
            else:
                t = sh(f"cd {REPO} && cargo test --workspace --no-fail-fast --offline 2>&1 | grep -E '^test result'")
                failed = sum(int(l.split("; ")[1].split()[0]) for l in t.stdout.splitlines() if l.startswith("test result"))
                tests = "pass" if failed == 0 else f"{failed} failing"
            t0 = time.time()
            c = sh(f"cd {VERIF} && ./check {prop} quick 2>&1 | grep -a -E '^VIOLATION|^violation in part|^OK|^INCONCLUSIVE|BUILD' | head -2")
            msg = " | ".join(c.stdout.strip().splitlines())[:260]
            caught = "CAUGHT" if "VIOLATION" in c.stdout else ("missed" if c.stdout.startswith("OK") or "\nOK" in c.stdout else "other")
            line = f"{name}\t{prop}\ttests:{tests}\t{caught}\t{time.time()-t0:.0f}s\t{path}\t{msg}"
        finally:
            sh(f"git -C {REPO} checkout -- .")
        print(line); out.write(line + "\n"); out.flush()
    return 0

if __name__ == "__main__":
    sys.exit(main())
