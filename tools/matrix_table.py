#!/usr/bin/env python3
"""Turns the output of tools/seed_matrix.sh into the markdown table of DESIGN.md section 10.5."""
import sys, re, collections
rows = collections.OrderedDict()
for line in open(sys.argv[1], errors="replace"):
    m = re.match(r"^(C\d\d-\d) check=(C\d\d) tier=\w+ exit=(\d+)", line)
    if m:
        rows.setdefault(m.group(1), {})[m.group(2)] = int(m.group(3))
print("| change | own check | other checks that also report a violation | inconclusive |")
print("|---|---|---|---|")
for name, res in rows.items():
    own = name.split("-")[0]
    o = {0: "missed", 1: "caught", 2: "inconclusive"}.get(res.get(own, -1), "not run")
    others = [c for c, rc in res.items() if rc == 1 and c != own]
    inc = [c for c, rc in res.items() if rc == 2]
    print(f"| {name} | {o} | {', '.join(others) or '—'} | {', '.join(inc) or '—'} |")
